//! Generators of *valid* picture ASTs (intra and predicted) from the choice tape.
//!
//! Validity rules enforced by construction: levels non-zero and inside the range the stream form
//! can carry (+-127 standard / Sorenson v0, +-63 narrow and +-1023 wide escapes in Sorenson v1),
//! run sums <= 63, INTRADC codes 1..=254 except 128 plus 255, quantizer 1..=31, DQUANT in
//! {-2,-1,1,2}, differentials -16..15.5, macroblock count <= the picture's, sizes >= 1.

use crate::gen::Gen;
use crate::syntax::*;

#[derive(Clone, Copy, Debug)]
pub struct PicCfg {
    /// upper bound for routinely generated custom dimensions
    pub max_dim: u16,
    /// allow the fixed formats up to this many macroblocks (CIF = 396, 4CIF = 1584, 16CIF = 6336)
    pub max_fixed_mbs: usize,
    /// allow occasional extreme aspect ratios (2000x3, 5x1500)
    pub extreme_aspect: bool,
    /// permit standard (non-Sorenson) mode
    pub allow_standard: bool,
    /// permit Sorenson mode
    pub allow_sorenson: bool,
    /// bias sizes toward 16..96 (many macroblock neighbourhoods at small cost)
    pub small_bias: bool,
    /// approximate tape words available for macroblock content
    pub budget: usize,
}

impl PicCfg {
    pub fn quick() -> PicCfg {
        PicCfg {
            max_dim: 200,
            max_fixed_mbs: 99,
            extreme_aspect: true,
            allow_standard: true,
            allow_sorenson: true,
            small_bias: true,
            budget: 2500,
        }
    }
    pub fn thorough() -> PicCfg {
        PicCfg {
            max_dim: 400,
            max_fixed_mbs: 1584,
            extreme_aspect: true,
            allow_standard: true,
            allow_sorenson: true,
            small_bias: true,
            budget: 3500,
        }
    }
}

pub fn gen_mode(g: &mut Gen, cfg: &PicCfg) -> (Mode, u8) {
    match (cfg.allow_sorenson, cfg.allow_standard) {
        (true, true) => match g.weighted(&[3, 3, 2]) {
            0 => (Mode::Sorenson, 0),
            1 => (Mode::Sorenson, 1),
            _ => (Mode::Standard, 0),
        },
        (true, false) => {
            if g.bool() {
                (Mode::Sorenson, 1)
            } else {
                (Mode::Sorenson, 0)
            }
        }
        _ => (Mode::Standard, 0),
    }
}

fn custom_size(g: &mut Gen, w: u16, h: u16) -> Size {
    if w <= 255 && h <= 255 && !g.chance(1, 5) {
        Size::Custom8(w as u8, h as u8)
    } else {
        Size::Custom16(w, h)
    }
}

pub fn gen_size(g: &mut Gen, mode: Mode, cfg: &PicCfg) -> Size {
    match mode {
        Mode::Standard => {
            let mut opts = vec![Size::Sqcif, Size::Qcif];
            if cfg.max_fixed_mbs >= 396 {
                opts.push(Size::Cif);
            }
            if cfg.max_fixed_mbs >= 1584 {
                opts.push(Size::Cif4);
            }
            if cfg.max_fixed_mbs >= 6336 {
                opts.push(Size::Cif16);
            }
            // custom picture formats (PLUSPTYPE + CPFMT): any multiple of 4
            if g.chance(2, 5) {
                let lim = (cfg.max_dim as i64 / 4).max(1);
                let w = if g.chance(1, 3) { g.range(1, 8) } else { g.range(1, lim.min(if cfg.small_bias { 24 } else { lim })) } as u16 * 4;
                let h = if g.chance(1, 3) { g.range(1, 8) } else { g.range(1, lim.min(if cfg.small_bias { 24 } else { lim }).min(288)) } as u16 * 4;
                return Size::StdCustom(w, h);
            }
            // bigger formats are rarer
            let weights: Vec<u32> = (0..opts.len()).map(|i| [8u32, 6, 2, 1, 1][i]).collect();
            opts[g.weighted(&weights)]
        }
        Mode::Sorenson => {
            let k = g.weighted(&[10, 6, 4, 2, 1, 1]);
            match k {
                0 => {
                    // small: 1..=96 in each dimension, every residue mod 16
                    let w = g.range(1, if cfg.small_bias { 96 } else { cfg.max_dim as i64 }) as u16;
                    let h = g.range(1, if cfg.small_bias { 96 } else { cfg.max_dim as i64 }) as u16;
                    custom_size(g, w, h)
                }
                1 => {
                    // tiny: one or two macroblocks, 1-pixel rows / columns
                    let w = g.range(1, 33) as u16;
                    let h = g.range(1, 33) as u16;
                    custom_size(g, w, h)
                }
                2 => {
                    let w = g.range(1, cfg.max_dim as i64) as u16;
                    let h = g.range(1, cfg.max_dim as i64) as u16;
                    custom_size(g, w, h)
                }
                3 => {
                    // fixed Sorenson codes
                    let mut opts = vec![Size::S160x120, Size::Sqcif];
                    if cfg.max_fixed_mbs >= 99 {
                        opts.push(Size::Qcif);
                    }
                    if cfg.max_fixed_mbs >= 300 {
                        opts.push(Size::S320x240);
                    }
                    if cfg.max_fixed_mbs >= 396 {
                        opts.push(Size::Cif);
                    }
                    *g.pick(&opts)
                }
                4 if cfg.extreme_aspect => {
                    // long thin pictures, incl. the very top of the 16-bit size range
                    // ... and the neighbourhoods of 2^15, 2^14, 2^13, 2^12 (sign bits of narrower integers)
                    let long = match g.weighted(&[4, 2, 2, 4]) {
                        0 => g.range(65500, 65535),
                        1 => g.range(32700, 32850),
                        2 => *g.pick(&[4096i64, 8192, 16384]) + g.range_around(-40, 40, 0),
                        _ => g.range(300, 2000),
                    } as u16;
                    if g.bool() {
                        Size::Custom16(long, g.range(1, 5) as u16)
                    } else {
                        Size::Custom16(g.range(1, 5) as u16, long)
                    }
                }
                _ => {
                    // exact multiples of 16 and just-over sizes
                    let a = g.range(1, 8) as u16 * 16;
                    let b = g.range(1, 8) as u16 * 16;
                    let da = *g.pick(&[0u16, 0, 1, 15]);
                    let db = *g.pick(&[0u16, 0, 1, 15]);
                    custom_size(g, a + da, b + db)
                }
            }
        }
    }
}

/// Does the tree under test accept pictures whose header switches on (a) the UMV mode bit in an
/// intra picture, (b) Reference Picture Selection mode? Asked once per process with two minimal
/// intra pictures on fresh decoders. The properties promise decoding for valid pictures of the
/// baseline syntax; a decoder that cleanly refuses an optional mode it does not implement is
/// within them, so the generators only switch these bits on where the tree accepts them at all
/// (what it then does with the pictures that follow is judged in full). A panic counts as
/// "accepted": the checks will then meet and report it.
static MODES: std::sync::OnceLock<(bool, bool)> = std::sync::OnceLock::new();

/// The probe's answer, if this process asked (for the evidence file).
pub fn optional_modes_if_probed() -> Option<(bool, bool)> {
    MODES.get().copied()
}

pub fn optional_modes_accepted() -> (bool, bool) {
    *MODES.get_or_init(|| {
        let probe = |plus: PlusForm, size: Size, umv: bool, rps: bool| -> bool {
            let mut hdr = Header::standard(PicType::I, size, 7);
            hdr.plus = plus;
            hdr.umv = umv;
            hdr.rps = rps;
            hdr.tr = 3;
            let (mbw, mbh) = hdr.mb_dims().unwrap();
            let mut mbs = Vec::new();
            for n in 0..mbw * mbh {
                let mut mb = Mb::new(MbKind::Intra);
                for b in 0..6 {
                    mb.blocks[b].dc = 60 + ((n + b) % 100) as u8;
                }
                mbs.push(mb);
            }
            let pic = Pic { hdr, mbs, trailing_zero_bits: 0 };
            let mut st = h263_rs::H263State::new(crate::dec::options(Mode::Standard, false));
            !matches!(crate::dec::decode_bytes(&mut st, &encode_pic(&pic)), crate::dec::Outcome::Err(_))
        };
        let umv = probe(PlusForm::Baseline, Size::Sqcif, true, false) && probe(PlusForm::Full, Size::StdCustom(16, 16), true, false);
        let rps = probe(PlusForm::Full, Size::StdCustom(16, 16), false, true);
        (umv, rps)
    })
}

pub fn gen_header(g: &mut Gen, mode: Mode, version: u8, size: Size, ptype: PicType) -> Header {
    let mut h = match mode {
        Mode::Sorenson => Header::sorenson(version, ptype, size, 1),
        Mode::Standard => Header::standard(ptype, size, 1),
    };
    h.quant = gen_quant(g);
    h.tr = g.byte();
    if mode == Mode::Sorenson {
        h.deblock = g.bool();
    } else {
        h.split_screen = g.chance(1, 4);
        h.doc_camera = g.chance(1, 4);
        h.freeze_release = g.chance(1, 4);
        if g.chance(1, 8) {
            h.cpm = Some(g.below(4) as u8);
        }
        // header form: custom formats need PLUSPTYPE; predicted pictures may leave the format
        // unstated (UFEP = 000), intra pictures must restate it
        let custom = matches!(size, Size::StdCustom(..));
        h.plus = match (custom, ptype == PicType::I) {
            (true, true) => PlusForm::Full,
            (true, false) => {
                if g.bool() {
                    PlusForm::Brief
                } else {
                    PlusForm::Full
                }
            }
            (false, true) => {
                if g.chance(1, 4) {
                    PlusForm::Full
                } else {
                    PlusForm::Baseline
                }
            }
            (false, false) => match g.weighted(&[4, 1, 1]) {
                0 => PlusForm::Baseline,
                1 => PlusForm::Full,
                _ => PlusForm::Brief,
            },
        };
    }
    if g.chance(1, 8) {
        let n = g.range(1, 3) as usize;
        h.pei = g.bytes(n);
    } else if g.chance(1, 120) {
        // a long chain of extra-information bytes (hundreds): content derived from one tape word
        let n = g.range(200, 700) as usize;
        let mut x = g.word() | 1;
        h.pei = (0..n)
            .map(|_| {
                x = x.wrapping_mul(1_664_525).wrapping_add(1_013_904_223);
                (x >> 24) as u8
            })
            .collect();
    }
    if mode == Mode::Standard && ptype == PicType::I {
        // an optional mode that means nothing for an intra picture, switched on in its header
        h.umv = g.chance(1, 4) && optional_modes_accepted().0;
    }
    if mode == Mode::Standard && h.plus == PlusForm::Full {
        // Reference Picture Selection mode, never selecting anything but the previous picture
        h.rps = g.chance(1, 5) && optional_modes_accepted().1;
    }
    h
}

pub fn gen_quant(g: &mut Gen) -> u8 {
    match g.weighted(&[6, 2, 2]) {
        0 => g.range(1, 31) as u8,
        1 => *g.pick(&[1u8, 2, 30, 31]),
        _ => g.range(1, 8) as u8,
    }
}

pub fn gen_dquant(g: &mut Gen) -> i8 {
    *g.pick(&[1i8, -1, 2, -2])
}

pub fn gen_intradc(g: &mut Gen) -> u8 {
    if g.chance(1, 12) {
        *g.pick(&[1u8, 254, 255, 127, 129, 2])
    } else {
        let v = g.range(1, 254) as u8;
        if v == 128 {
            255
        } else {
            v
        }
    }
}

/// A level valid for the stream form; also decides the escape flags.
pub fn gen_level(g: &mut Gen, hdr: &Header) -> (i16, bool, bool) {
    let v1 = hdr.is_v1();
    let mag: i16 = match g.weighted(&[10, 5, 3, 2, 2]) {
        0 => g.range(1, 3) as i16,
        1 => g.range(1, 12) as i16,
        2 => g.range(1, if v1 { 63 } else { 127 }) as i16,
        3 => {
            if v1 {
                g.range(1, 1023) as i16
            } else {
                g.range(13, 127) as i16
            }
        }
        _ => {
            if v1 {
                *g.pick(&[63i16, 64, 127, 528, 529, 1023, 1022, 62])
            } else {
                *g.pick(&[127i16, 126, 64, 63, 33, 34])
            }
        }
    };
    let level = if g.bool() { -mag } else { mag };
    let force_escape = g.chance(1, 8);
    let wide = if v1 { mag > 63 || g.chance(1, 3) } else { false };
    (level, force_escape, wide)
}

const ROW0: [usize; 8] = [0, 1, 5, 6, 14, 15, 27, 28];
const COL0: [usize; 8] = [0, 2, 3, 9, 10, 20, 21, 35];

#[derive(Clone, Copy, Debug, PartialEq, Eq)]
pub enum Shape {
    Empty,
    Single,
    Row,
    Col,
    Dense,
    Sparse,
    /// every position from the first available one to 63 carries an event (run 0 throughout):
    /// 64 events in an inter block, 63 in an intra block
    Full,
    /// two rows (or two columns) of strong coefficients that nearly cancel in the second pass of
    /// the transform: row v=0 / v=4 (columns u=0 / u=4) carry the same large levels except for small
    /// deviations, so the intermediate values are huge while half of the output lines are small
    Cancelling,
}

pub fn gen_shape(g: &mut Gen) -> Shape {
    match g.weighted(&[12, 6, 4, 4, 4, 6, 1, 1]) {
        7 => Shape::Cancelling,
        6 => Shape::Full,
        0 => Shape::Empty,
        1 => Shape::Single,
        2 => Shape::Row,
        3 => Shape::Col,
        4 => Shape::Dense,
        _ => Shape::Sparse,
    }
}

/// Zig-zag index of coefficient (u, v) (u horizontal frequency).
fn zz_index(u: usize, v: usize) -> usize {
    const ZZ: [[usize; 8]; 8] = [
        [0, 1, 5, 6, 14, 15, 27, 28],
        [2, 4, 7, 13, 16, 26, 29, 42],
        [3, 8, 12, 17, 25, 30, 41, 43],
        [9, 11, 18, 24, 31, 40, 44, 53],
        [10, 19, 23, 32, 39, 45, 52, 54],
        [20, 22, 33, 38, 46, 51, 55, 60],
        [21, 34, 37, 47, 50, 56, 59, 61],
        [35, 36, 48, 49, 57, 58, 62, 63],
    ];
    ZZ[v][u]
}

/// See `Shape::Cancelling`.
fn gen_cancelling_events(g: &mut Gen, hdr: &Header, first: usize) -> Vec<Event> {
    let v1 = hdr.is_v1();
    let max_level: i16 = if v1 { 1023 } else { 127 };
    // a level whose reconstruction is large but (usually) not saturated
    let q = hdr.quant.max(1) as i32;
    let top = ((2047 / q - 1) / 2).clamp(1, max_level as i32) as i16;
    let rows = g.bool(); // two rows, or two columns
    let n = g.range(3, 8) as usize;
    let mut levels: Vec<(usize, usize, i16)> = Vec::new(); // (u, v, level)
    for k in 0..n {
        let big = (top - g.range(0, (top as i64 / 8).max(1)) as i16).max(1);
        let sign = if g.bool() { 1 } else { -1 };
        let small = g.range_around(-3, 3, 0) as i16;
        let flip = if g.bool() { 1 } else { -1 };
        let (a, b) = if rows { ((k, 0usize), (k, 4usize)) } else { ((0usize, k), (4usize, k)) };
        levels.push((a.0, a.1, sign * big));
        let other = (flip * sign * (big + small)).clamp(-max_level, max_level);
        if other != 0 {
            levels.push((b.0, b.1, other));
        }
    }
    let mut at: Vec<(usize, i16)> = levels.iter().map(|(u, v, l)| (zz_index(*u, *v), *l)).filter(|(p, _)| *p >= first).collect();
    at.sort();
    let mut evs = Vec::new();
    let mut prev = first;
    for (p, level) in at {
        let wide = v1 && (level.abs() > 63 || g.chance(1, 3));
        evs.push(Event { run: (p - prev) as u8, level, force_escape: false, wide });
        prev = p + 1;
    }
    evs
}

/// Generate the events of one block. `first` is the first zig-zag index available to events
/// (1 for intra blocks, whose index 0 is INTRADC; 0 for inter blocks).
pub fn gen_events(g: &mut Gen, hdr: &Header, first: usize, shape: Shape) -> Vec<Event> {
    if shape == Shape::Cancelling {
        return gen_cancelling_events(g, hdr, first);
    }
    let mut positions: Vec<usize> = Vec::new();
    match shape {
        Shape::Cancelling => {}
        Shape::Empty => {}
        Shape::Single => positions.push(g.range(first as i64, 63) as usize),
        Shape::Row | Shape::Col => {
            let set = if shape == Shape::Row { &ROW0 } else { &COL0 };
            for &p in set.iter() {
                if p >= first && g.chance(1, 2) {
                    positions.push(p);
                }
            }
            if positions.is_empty() {
                positions.push(set[g.range(1, 7) as usize]);
            }
        }
        Shape::Full => {
            for p in first..=63 {
                positions.push(p);
            }
        }
        Shape::Dense => {
            let n = g.range(2, 14) as usize;
            let mut p = first;
            for _ in 0..n {
                p += g.weighted(&[6, 2, 1]);
                if p > 63 {
                    break;
                }
                positions.push(p);
                p += 1;
            }
        }
        Shape::Sparse => {
            let n = g.range(1, 5) as usize;
            let mut p = first;
            for _ in 0..n {
                p += g.range(0, 20) as usize;
                if p > 63 {
                    break;
                }
                positions.push(p);
                p += 1;
            }
        }
    }
    let mut evs = Vec::with_capacity(positions.len());
    let mut prev = first;
    for p in positions {
        let (level, force_escape, wide) = gen_level(g, hdr);
        evs.push(Event {
            run: (p - prev) as u8,
            level,
            force_escape,
            wide,
        });
        prev = p + 1;
    }
    evs
}

/// Events of one block of a detailed macroblock: freshly generated, or (one time in six, when
/// the picture already has some) a verbatim repeat of a block generated earlier in this picture.
fn gen_events_pooled(g: &mut Gen, hdr: &Header, first: usize) -> Vec<Event> {
    let v1 = hdr.is_v1();
    if g.chance(1, 6) {
        let candidates: Vec<usize> = g.block_pool.iter().enumerate().filter(|(_, b)| b.0 == first && b.1 == v1).map(|(i, _)| i).collect();
        if !candidates.is_empty() {
            let k = candidates[g.below(candidates.len() as u32) as usize];
            return g.block_pool[k].2.clone();
        }
    }
    let shape = gen_shape(g);
    let ev = gen_events(g, hdr, first, shape);
    if !ev.is_empty() && g.block_pool.len() < 6 {
        g.block_pool.push((first, v1, ev.clone()));
    }
    ev
}

/// One time in eight, block `b` of a detailed macroblock repeats - INTRADC and events - the block
/// that precedes it in its plane: block `b` of the previous macroblock (for the first luma block
/// also that macroblock's last luma block), or the previous luma block of this macroblock. Equal
/// neighbouring blocks, possibly under different quantizers (a +Q macroblock in between), are what
/// flat or periodic picture content produces.
fn repeat_neighbour(g: &mut Gen, hdr: &Header, mb: &mut Mb, b: usize, first: usize) {
    if !g.chance(1, 8) {
        return;
    }
    let v1 = hdr.is_v1();
    let which = g.below(3);
    if (1..4).contains(&b) && which == 2 {
        let (dc, ev) = (mb.blocks[b - 1].dc, mb.blocks[b - 1].events.clone());
        mb.blocks[b].dc = dc;
        mb.blocks[b].events = ev;
        return;
    }
    if let Some((f, v, blocks)) = &g.last_mb {
        if *f == first && *v == v1 {
            let src = if b == 0 && which == 1 { 3 } else { b };
            mb.blocks[b].dc = blocks[src].0;
            mb.blocks[b].events = blocks[src].1.clone();
        }
    }
}

fn remember_mb(g: &mut Gen, hdr: &Header, mb: &Mb, first: usize) {
    g.last_mb = Some((first, hdr.is_v1(), mb.blocks.iter().map(|b| (b.dc, b.events.clone())).collect()));
}

/// Content density: probability (out of 16) that a macroblock gets fully detailed content.
fn detail_odds(total_mbs: usize, cfg: &PicCfg) -> u32 {
    // a detailed macroblock costs roughly 60 words on average
    let afford = cfg.budget / 60;
    if total_mbs <= afford {
        16
    } else {
        ((afford * 16) / total_mbs).clamp(1, 16) as u32
    }
}

pub fn gen_intra_mb(g: &mut Gen, hdr: &Header, detailed: bool, allow_q: bool) -> Mb {
    let kind = if allow_q && g.chance(1, 5) { MbKind::IntraQ } else { MbKind::Intra };
    let mut mb = Mb::new(kind);
    if kind == MbKind::IntraQ {
        mb.dquant = gen_dquant(g);
    }
    if detailed {
        for b in 0..6 {
            mb.blocks[b].dc = gen_intradc(g);
            mb.blocks[b].events = gen_events_pooled(g, hdr, 1);
            repeat_neighbour(g, hdr, &mut mb, b, 1);
        }
        remember_mb(g, hdr, &mb, 1);
    } else {
        // cheap macroblock: one tape word; DC levels spread over the blocks and two low-frequency
        // coefficients (horizontal and vertical gradient) so that every sample of the block is
        // different and any displaced or mis-interpolated prediction from it is visible
        let base = gen_intradc(g);
        let l = (24 / hdr.quant.max(1) as i16).clamp(1, 8);
        for b in 0..6 {
            let v = base.wrapping_add(b as u8 * 9);
            mb.blocks[b].dc = if v == 0 || v == 128 { 77 } else { v };
            let s1 = if (base >> (b % 4)) & 1 == 0 { l } else { -l };
            let s2 = if (base >> ((b + 3) % 7)) & 1 == 0 { -l } else { l };
            mb.blocks[b].events = vec![
                Event { run: 0, level: s1, force_escape: false, wide: false },
                Event { run: 0, level: s2, force_escape: false, wide: false },
            ];
        }
    }
    mb
}

pub fn gen_mvd_component(g: &mut Gen) -> i8 {
    match g.weighted(&[4, 4, 3, 1]) {
        0 => 0,
        1 => g.range_around(-4, 4, 0) as i8,
        2 => g.range_around(-32, 31, 0) as i8,
        _ => *g.pick(&[31i8, -32, -31, 30, 1, -1]),
    }
}

pub fn gen_inter_mb(g: &mut Gen, hdr: &Header, detailed: bool) -> Mb {
    let kind = match g.weighted(&[3, 5, 1, 2, 1, 1, 1]) {
        0 => MbKind::NotCoded,
        1 => MbKind::Inter,
        2 => MbKind::InterQ,
        3 => MbKind::Inter4V,
        4 => MbKind::Inter4VQ,
        5 => MbKind::Intra,
        _ => MbKind::IntraQ,
    };
    let mut mb = Mb::new(kind);
    if kind == MbKind::NotCoded {
        return mb;
    }
    if kind.has_q() {
        mb.dquant = gen_dquant(g);
    }
    if kind.is_inter_coded() {
        let n = if kind.has_4v() { 4 } else { 1 };
        for k in 0..n {
            mb.mvd[k] = (gen_mvd_component(g), gen_mvd_component(g));
        }
    }
    for b in 0..6 {
        if kind.is_intra() {
            mb.blocks[b].dc = gen_intradc(g);
        }
        if detailed {
            let first = if kind.is_intra() { 1 } else { 0 };
            mb.blocks[b].events = gen_events_pooled(g, hdr, first);
            repeat_neighbour(g, hdr, &mut mb, b, first);
        } else if g.chance(1, 6) {
            mb.blocks[b].events = gen_events(g, hdr, if kind.is_intra() { 1 } else { 0 }, Shape::Single);
        }
    }
    if detailed {
        remember_mb(g, hdr, &mb, if kind.is_intra() { 1 } else { 0 });
    }
    mb
}

fn maybe_stuffing(g: &mut Gen) -> u8 {
    if g.chance(1, 24) {
        g.range(1, 2) as u8
    } else {
        0
    }
}

/// Pictures of many macroblocks cannot pay for their content out of the case's tape (a few thousand
/// words): beyond this many macroblocks the content comes from a *derived* tape - pseudo-random
/// words expanded from one word of the case's tape - read by the same macroblock generators, so
/// that the far columns and rows of very wide / tall pictures carry real content (coefficients,
/// vectors, every macroblock type) too.
const DERIVED_CONTENT_ABOVE: usize = 600;

fn derived_tape(seed: u32, words: usize) -> Vec<u32> {
    let mut x = (seed as u64) << 17 | 0x9E37_79B9;
    (0..words)
        .map(|_| {
            x ^= x << 13;
            x ^= x >> 7;
            x ^= x << 17;
            (x >> 16) as u32
        })
        .collect()
}

pub fn gen_intra_pic_with(g: &mut Gen, cfg: &PicCfg, mode: Mode, version: u8, size: Size) -> Pic {
    let hdr = gen_header(g, mode, version, size, PicType::I);
    g.block_pool.clear();
    g.last_mb = None;
    let (mbw, mbh) = hdr.mb_dims().unwrap();
    let total = mbw * mbh;
    let odds = detail_odds(total, cfg);
    let mut mbs = Vec::with_capacity(total);
    if total > DERIVED_CONTENT_ABOVE {
        let tape = derived_tape(g.word(), total * 12 + 64);
        let mut sg = Gen::new(&tape);
        for _ in 0..total {
            let detailed = sg.chance(1, 24);
            let mut mb = gen_intra_mb(&mut sg, &hdr, detailed, true);
            mb.stuffing = maybe_stuffing(&mut sg);
            mbs.push(mb);
        }
    } else {
        for _ in 0..total {
            let detailed = odds >= 16 || g.chance(odds, 16);
            let mut mb = gen_intra_mb(g, &hdr, detailed, true);
            mb.stuffing = maybe_stuffing(g);
            mbs.push(mb);
        }
    }
    // Own-reader pictures are padded to the byte boundary by the serialiser (0..=7 zero bits,
    // i.e. "fewer than eight"); explicit extra padding is only used by the stream generators.
    Pic {
        hdr,
        mbs,
        trailing_zero_bits: 0,
    }
}

pub fn gen_intra_pic(g: &mut Gen, cfg: &PicCfg) -> Pic {
    let (mode, version) = gen_mode(g, cfg);
    let size = gen_size(g, mode, cfg);
    gen_intra_pic_with(g, cfg, mode, version, size)
}

/// A predicted picture with the same mode / size as `like`. `ptype` is P or D.
/// Another header spelling of exactly the same dimensions (fixed-format code vs custom size,
/// 8-bit vs 16-bit custom size), when one exists.
pub fn respell(g: &mut Gen, mode: Mode, size: Size) -> Size {
    let (w, h) = match size.dims() {
        Some(d) => d,
        None => return size,
    };
    let mut opts: Vec<Size> = vec![size];
    match mode {
        Mode::Sorenson => {
            if w <= 255 && h <= 255 {
                opts.push(Size::Custom8(w as u8, h as u8));
            }
            opts.push(Size::Custom16(w as u16, h as u16));
            for fixed in [Size::Cif, Size::Qcif, Size::Sqcif, Size::S320x240, Size::S160x120] {
                if fixed.dims() == Some((w, h)) {
                    opts.push(fixed);
                }
            }
        }
        Mode::Standard => {
            if w % 4 == 0 && h % 4 == 0 && w <= 2048 && h <= 1152 && w >= 4 && h >= 4 {
                opts.push(Size::StdCustom(w as u16, h as u16));
            }
            for fixed in [Size::Sqcif, Size::Qcif, Size::Cif, Size::Cif4, Size::Cif16] {
                if fixed.dims() == Some((w, h)) {
                    opts.push(fixed);
                }
            }
        }
    }
    *g.pick(&opts)
}

/// Make the freshly generated header of a predicted picture consistent with the pictures it
/// follows (`like`: the latest intra picture, or any picture predicted from it).
pub fn follow(hdr: &mut Header, like: &Header) {
    if hdr.plus == PlusForm::Brief && like.umv_coded() {
        // a header that restates nothing would inherit the earlier picture's UMV mode; the
        // predicted pictures generated here are baseline-mode pictures and say so
        hdr.plus = PlusForm::Full;
    }
    if like.mode == Mode::Standard {
        // Reference Picture Selection mode: a whole chain of pictures (an intra picture and the
        // pictures predicted from it) has it on or off, so that a header which restates nothing
        // (and inherits the mode from whatever picture of the chain came before it) is written
        // correctly whichever picture of the chain `like` is. A baseline header cannot state the
        // mode, so a chain with the mode on has none.
        let on = like.rps_in_force();
        if on && hdr.plus == PlusForm::Baseline {
            hdr.plus = PlusForm::Full;
        }
        hdr.rps = on && hdr.plus != PlusForm::Baseline;
    }
}

pub fn gen_inter_pic(g: &mut Gen, cfg: &PicCfg, like: &Header, ptype: PicType, allow_truncation: bool) -> Pic {
    // usually the size is spelled as in the earlier picture; sometimes the same dimensions are
    // signalled in another way (a predicted picture must only match its reference's dimensions)
    let size = if g.chance(1, 6) { respell(g, like.mode, like.size) } else { like.size };
    let mut hdr = gen_header(g, like.mode, like.version, size, ptype);
    follow(&mut hdr, like);
    g.block_pool.clear();
    g.last_mb = None;
    let (mbw, mbh) = hdr.mb_dims().unwrap();
    let total = mbw * mbh;
    let odds = detail_odds(total, cfg);
    let n = if allow_truncation && g.chance(1, 6) { g.range(0, total as i64 - 1) as usize } else { total };
    let mut mbs = Vec::with_capacity(n);
    if total > DERIVED_CONTENT_ABOVE {
        let tape = derived_tape(g.word(), n * 12 + 64);
        let mut sg = Gen::new(&tape);
        for _ in 0..n {
            let detailed = sg.chance(1, 24);
            let mut mb = gen_inter_mb(&mut sg, &hdr, detailed);
            mb.stuffing = maybe_stuffing(&mut sg);
            mbs.push(mb);
        }
    } else {
        for _ in 0..n {
            let detailed = odds >= 16 || g.chance(odds, 16);
            let mut mb = gen_inter_mb(g, &hdr, detailed);
            mb.stuffing = maybe_stuffing(g);
            mbs.push(mb);
        }
    }
    // Own-reader pictures are padded to the byte boundary by the serialiser (0..=7 zero bits,
    // i.e. "fewer than eight"); explicit extra padding is only used by the stream generators.
    Pic {
        hdr,
        mbs,
        trailing_zero_bits: 0,
    }
}

/// Compact JSON description of a picture for samples and replay files.
pub fn describe_pic(p: &Pic) -> serde_json::Value {
    use serde_json::json;
    let mut kinds = std::collections::BTreeMap::new();
    let mut events = 0usize;
    for mb in &p.mbs {
        *kinds.entry(format!("{:?}", mb.kind)).or_insert(0usize) += 1;
        for b in &mb.blocks {
            events += b.events.len();
        }
    }
    let bytes = encode_pic(p);
    let head: Vec<&Mb> = p.mbs.iter().take(2).collect();
    json!({
        "mode": format!("{:?}", p.hdr.mode),
        "version": p.hdr.version,
        "type": format!("{:?}", p.hdr.ptype),
        "size": format!("{:?}", p.hdr.size),
        "tr": p.hdr.tr,
        "quant": p.hdr.quant,
        "pei": p.hdr.pei,
        "macroblocks": p.mbs.len(),
        "kinds": kinds,
        "events": events,
        "trailing_zero_bits": p.trailing_zero_bits,
        "first_macroblocks": format!("{:?}", head),
        "bytes": bytes.len(),
        "hex": crate::bits::hex(&bytes[..bytes.len().min(4096)]),
    })
}
