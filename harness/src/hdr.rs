//! Standard H.263 picture header (clause 5.1) AST, generator and writer, including PLUSPTYPE and all
//! its followers. Used by C06 (field-for-field parsing) and by the hostile generators of C01.
//!
//! Layout (bit 1 of each field is transmitted first):
//!   PSC(22) TR(8) PTYPE(8 or 13) [PLUSPTYPE: UFEP(3) OPPTYPE(18) MPPTYPE(9)] [CPM(1) PSBI(2)]
//!   [CPFMT(23) [EPAR(16)]] [CPCFC(8)] [ETR(2)] [UUI(1-2)] [SSS(2)] [ELNUM(4)] [RLNUM(4)] [RPSMF(3)]
//!   [TRPI(1) [TRP(10)]] [BCI(1-2)] [RPRP] PQUANT(5) [CPM(1) PSBI(2)] [TRB(3/5) DBQUANT(2)] PEI...

use crate::bits::BitWriter;
use crate::gen::Gen;

#[derive(Clone, Debug, PartialEq, Eq)]
pub struct Opp {
    /// source format code 0..=7 (1..=5 fixed, 6 custom, 0 and 7 reserved)
    pub fmt: u8,
    pub custom_pcf: bool,
    pub umv: bool,
    pub sac: bool,
    pub ap: bool,
    pub aic: bool,
    pub df: bool,
    pub ss: bool,
    pub rps: bool,
    pub isd: bool,
    pub aiv: bool,
    pub mq: bool,
    /// bits 15..18, must be 0b1000
    pub marker: u8,
}

impl Opp {
    pub fn mode_bits(&self) -> u32 {
        // ten mode bits in transmission order UMV..MQ (bit 9 = UMV ... bit 0 = MQ)
        let b = [self.umv, self.sac, self.ap, self.aic, self.df, self.ss, self.rps, self.isd, self.aiv, self.mq];
        b.iter().fold(0, |a, x| (a << 1) | *x as u32)
    }
    pub fn from_mode_bits(fmt: u8, custom_pcf: bool, bits: u32) -> Opp {
        let b = |i: u32| (bits >> (9 - i)) & 1 == 1;
        Opp {
            fmt,
            custom_pcf,
            umv: b(0),
            sac: b(1),
            ap: b(2),
            aic: b(3),
            df: b(4),
            ss: b(5),
            rps: b(6),
            isd: b(7),
            aiv: b(8),
            mq: b(9),
            marker: 0b1000,
        }
    }
}

#[derive(Clone, Debug, PartialEq, Eq)]
pub struct Cpfmt {
    /// PAR code 0..=15 (0 forbidden, 15 = extended)
    pub par: u8,
    /// PWI 0..=511: width = (PWI + 1) * 4
    pub pwi: u16,
    /// marker bit, must be 1
    pub marker: bool,
    /// PHI 0..=511: height = PHI * 4 (legal 1..=288)
    pub phi: u16,
    /// EPAR width, height (present iff par == 15)
    pub epar: (u8, u8),
}

#[derive(Clone, Copy, Debug, PartialEq, Eq)]
pub enum Uui {
    /// "1"
    Limited,
    /// "01"
    Unlimited,
    /// "00" (invalid)
    Invalid,
}

#[derive(Clone, Copy, Debug, PartialEq, Eq)]
pub enum Bci {
    /// "01": no back-channel message
    Absent,
    /// "1": message follows (the tree answers UnimplementedDecoding)
    Present,
    /// "00": invalid
    Invalid,
}

#[derive(Clone, Debug, PartialEq, Eq)]
pub struct Plus {
    /// UFEP 0..=7 (0 and 1 are valid)
    pub ufep: u8,
    /// used iff ufep == 1
    pub opp: Opp,
    /// MPPTYPE picture type code 0..=7
    pub ptype_code: u8,
    pub rpr: bool,
    pub rru: bool,
    pub rtype: bool,
    /// MPPTYPE bits 7..9, must be 0b001
    pub mpp_marker: u8,
    pub cpm: Option<u8>,
    pub cpfmt: Cpfmt,
    /// CPCFC: (clock conversion code, divisor)
    pub cpcfc: (bool, u8),
    pub etr: u8,
    pub uui: Uui,
    pub sss: u8,
    pub elnum: u8,
    pub rlnum: u8,
    pub rpsmf: u8,
    /// TRPI / TRP (used when reference picture selection is in force)
    pub trp: Option<u16>,
    pub bci: Bci,
}

#[derive(Clone, Debug, PartialEq, Eq)]
pub struct Baseline {
    /// source format 1..=6 (6 reserved; 0 forbidden; 7 means PLUSPTYPE)
    pub fmt: u8,
    pub inter: bool,
    pub umv: bool,
    pub sac: bool,
    pub ap: bool,
    pub pb: bool,
    pub cpm: Option<u8>,
}

#[derive(Clone, Debug, PartialEq, Eq)]
pub enum Kind {
    Baseline(Baseline),
    Plus(Plus),
}

#[derive(Clone, Debug, PartialEq, Eq)]
pub struct StdHeader {
    /// GOB number field after the start code (0 = picture)
    pub gn: u8,
    pub tr: u8,
    /// PTYPE bits 1..2, must be (1, 0)
    pub ptype_marker: (bool, bool),
    pub split: bool,
    pub doc: bool,
    pub freeze: bool,
    pub kind: Kind,
    pub quant: u8,
    pub trb: u8,
    pub dbquant: u8,
    pub pei: Vec<u8>,
}

/// What is in force from earlier pictures when a header does not retransmit OPPTYPE (UFEP = 0).
#[derive(Clone, Debug, Default, PartialEq, Eq)]
pub struct Inherited {
    /// the ten OPPTYPE mode bits of the previous header (None: no previous header)
    pub mode_bits: Option<u32>,
}

impl StdHeader {
    /// OPPTYPE mode bits in force for this header (own if UFEP = 1, else inherited).
    pub fn mode_bits_in_force(&self, prev: &Inherited) -> u32 {
        match &self.kind {
            Kind::Baseline(b) => ((b.umv as u32) << 9) | ((b.sac as u32) << 8) | ((b.ap as u32) << 7),
            Kind::Plus(p) => {
                if p.ufep == 1 {
                    p.opp.mode_bits()
                } else {
                    prev.mode_bits.unwrap_or(0)
                }
            }
        }
    }

    pub fn is_pb(&self) -> bool {
        match &self.kind {
            Kind::Baseline(b) => b.pb,
            Kind::Plus(p) => p.ptype_code == 2,
        }
    }

    /// Presence of each optional field, per clause 5.1 (with the two documented restrictions of the
    /// harness: ETR only under a clock signalled in this header, ELNUM only with PLUSPTYPE - the
    /// generator never produces the other situations, see `gen_std_header`).
    pub fn write(&self, scalability: bool, prev: &Inherited, w: &mut BitWriter) {
        w.put(1, 17);
        w.put(self.gn as u64, 5);
        w.put(self.tr as u64, 8);
        w.put_bit(self.ptype_marker.0);
        w.put_bit(self.ptype_marker.1);
        w.put_bit(self.split);
        w.put_bit(self.doc);
        w.put_bit(self.freeze);
        match &self.kind {
            Kind::Baseline(b) => {
                w.put(b.fmt as u64, 3);
                w.put_bit(b.inter);
                w.put_bit(b.umv);
                w.put_bit(b.sac);
                w.put_bit(b.ap);
                w.put_bit(b.pb);
                w.put(self.quant as u64, 5);
                match b.cpm {
                    None => w.put_bit(false),
                    Some(p) => {
                        w.put_bit(true);
                        w.put(p as u64, 2);
                    }
                }
            }
            Kind::Plus(p) => {
                w.put(7, 3);
                w.put(p.ufep as u64, 3);
                let has_opp = p.ufep == 1;
                if has_opp {
                    w.put(p.opp.fmt as u64, 3);
                    w.put_bit(p.opp.custom_pcf);
                    w.put(p.opp.mode_bits() as u64, 10);
                    w.put(p.opp.marker as u64, 4);
                }
                if p.ufep <= 1 {
                    w.put(p.ptype_code as u64, 3);
                    w.put_bit(p.rpr);
                    w.put_bit(p.rru);
                    w.put_bit(p.rtype);
                    w.put(p.mpp_marker as u64, 3);
                    match p.cpm {
                        None => w.put_bit(false),
                        Some(x) => {
                            w.put_bit(true);
                            w.put(x as u64, 2);
                        }
                    }
                    if has_opp && p.opp.fmt == 6 {
                        w.put(p.cpfmt.par as u64, 4);
                        w.put(p.cpfmt.pwi as u64, 9);
                        w.put_bit(p.cpfmt.marker);
                        w.put(p.cpfmt.phi as u64, 9);
                        if p.cpfmt.par == 15 {
                            w.put(p.cpfmt.epar.0 as u64, 8);
                            w.put(p.cpfmt.epar.1 as u64, 8);
                        }
                    }
                    if has_opp && p.opp.custom_pcf {
                        w.put_bit(p.cpcfc.0);
                        w.put(p.cpcfc.1 as u64, 7);
                        w.put(p.etr as u64, 2);
                    }
                    if has_opp && p.opp.umv {
                        match p.uui {
                            Uui::Limited => w.put_bit(true),
                            Uui::Unlimited => w.put(0b01, 2),
                            Uui::Invalid => w.put(0b00, 2),
                        }
                    }
                    if has_opp && p.opp.ss {
                        w.put(p.sss as u64, 2);
                    }
                    if scalability {
                        w.put(p.elnum as u64, 4);
                        if has_opp {
                            w.put(p.rlnum as u64, 4);
                        }
                    }
                    if has_opp && p.opp.rps {
                        w.put(p.rpsmf as u64, 3);
                    }
                    let rps_in_force = (self.mode_bits_in_force(prev) >> 3) & 1 == 1;
                    if rps_in_force {
                        match p.trp {
                            None => w.put_bit(false),
                            Some(t) => {
                                w.put_bit(true);
                                w.put(t as u64, 10);
                            }
                        }
                        match p.bci {
                            Bci::Absent => w.put(0b01, 2),
                            Bci::Present => w.put_bit(true),
                            Bci::Invalid => w.put(0b00, 2),
                        }
                    }
                    // RPRP: never written (the tree answers UnimplementedDecoding before reading it)
                    w.put(self.quant as u64, 5);
                }
            }
        }
        if self.is_pb() {
            let custom_clock = matches!(&self.kind, Kind::Plus(p) if p.ufep == 1 && p.opp.custom_pcf);
            w.put(self.trb as u64, if custom_clock { 5 } else { 3 });
            w.put(self.dbquant as u64, 2);
        }
        for b in &self.pei {
            w.put_bit(true);
            w.put(*b as u64, 8);
        }
        w.put_bit(false);
    }
}

/// Neutral valid header to start sweeps from.
pub fn base_plus() -> Plus {
    Plus {
        ufep: 1,
        opp: Opp::from_mode_bits(2, false, 0),
        ptype_code: 0,
        rpr: false,
        rru: false,
        rtype: false,
        mpp_marker: 0b001,
        cpm: None,
        cpfmt: Cpfmt {
            par: 2,
            pwi: 43,
            marker: true,
            phi: 36,
            epar: (1, 1),
        },
        cpcfc: (false, 30),
        etr: 0,
        uui: Uui::Limited,
        sss: 0,
        elnum: 0,
        rlnum: 0,
        rpsmf: 4,
        trp: None,
        bci: Bci::Absent,
    }
}

pub fn base_header(kind: Kind) -> StdHeader {
    StdHeader {
        gn: 0,
        tr: 0,
        ptype_marker: (true, false),
        split: false,
        doc: false,
        freeze: false,
        kind,
        quant: 10,
        trb: 0,
        dbquant: 0,
        pei: vec![],
    }
}

pub fn base_baseline() -> Baseline {
    Baseline {
        fmt: 2,
        inter: false,
        umv: false,
        sac: false,
        ap: false,
        pb: false,
        cpm: None,
    }
}

/// Random *valid* standard header (every marker right, every field in its legal range) drawn
/// from the tape. `allow_unimplemented`: include RPR / BCI=1 (the tree rejects those by design).
pub fn gen_std_header(g: &mut Gen, plus_bias: bool) -> StdHeader {
    let plus = if plus_bias { g.chance(3, 4) } else { g.bool() };
    let kind = if !plus {
        Kind::Baseline(Baseline {
            fmt: g.range(1, 5) as u8,
            inter: g.bool(),
            umv: g.bool(),
            sac: g.bool(),
            ap: g.bool(),
            pb: g.chance(1, 4),
            cpm: if g.chance(1, 3) { Some(g.below(4) as u8) } else { None },
        })
    } else {
        let ufep = if g.chance(1, 4) { 0 } else { 1 };
        let fmt = if g.chance(1, 2) { 6 } else { g.range(1, 5) as u8 };
        let opp = Opp::from_mode_bits(fmt, g.chance(1, 3), g.below(1024));
        let par = match g.weighted(&[4, 2, 2]) {
            0 => g.range(1, 5) as u8,
            1 => g.range(6, 14) as u8,
            _ => 15,
        };
        Kind::Plus(Plus {
            ufep,
            opp,
            ptype_code: g.range(0, 7) as u8,
            rpr: false,
            rru: g.bool(),
            rtype: g.bool(),
            mpp_marker: 0b001,
            cpm: if g.chance(1, 3) { Some(g.below(4) as u8) } else { None },
            cpfmt: Cpfmt {
                par,
                pwi: g.range(0, 511) as u16,
                marker: true,
                phi: g.range(1, 288) as u16,
                epar: (g.range(1, 255) as u8, g.range(1, 255) as u8),
            },
            cpcfc: (g.bool(), g.range(0, 127) as u8),
            etr: g.below(4) as u8,
            uui: if g.bool() { Uui::Limited } else { Uui::Unlimited },
            sss: g.below(4) as u8,
            elnum: g.below(16) as u8,
            rlnum: g.below(16) as u8,
            rpsmf: g.below(8) as u8,
            trp: if g.bool() { Some(g.below(1024) as u16) } else { None },
            bci: Bci::Absent,
        })
    };
    StdHeader {
        gn: 0,
        tr: g.byte(),
        ptype_marker: (true, false),
        split: g.bool(),
        doc: g.bool(),
        freeze: g.bool(),
        kind,
        quant: g.below(32) as u8,
        trb: g.below(8) as u8,
        dbquant: g.below(4) as u8,
        pei: if g.chance(1, 4) {
            let n = g.range(1, 3) as usize;
            g.bytes(n)
        } else {
            vec![]
        },
    }
}
