//! Reference reconstruction of H.263 baseline / Sorenson Spark pictures from the AST.
//!
//! Written from H.263 (01/2005) clauses 5.3, 5.4, 6.1, 6.2 and Annex D/F conventions as stated in
//! the properties: dequantisation, zig-zag placement, ideal (double precision) 8x8 inverse DCT,
//! median motion-vector prediction with the picture-edge rules, differential wrap into
//! [-16, 15.5], sixteenth-position chroma rounding, bilinear half-sample interpolation with upward
//! rounding, edge clamping. Works from the AST, never from re-parsed bits.

use crate::syntax::*;

#[derive(Clone, Debug, PartialEq, Eq)]
pub struct Planes {
    pub w: usize,
    pub h: usize,
    pub y: Vec<u8>,
    pub cb: Vec<u8>,
    pub cr: Vec<u8>,
}

impl Planes {
    pub fn cw(&self) -> usize {
        (self.w + 1) / 2
    }
    pub fn ch(&self) -> usize {
        (self.h + 1) / 2
    }
    pub fn flat(w: usize, h: usize, v: u8) -> Planes {
        let cw = (w + 1) / 2;
        let ch = (h + 1) / 2;
        Planes {
            w,
            h,
            y: vec![v; w * h],
            cb: vec![v; cw * ch],
            cr: vec![v; cw * ch],
        }
    }
    pub fn digest(&self) -> u64 {
        let mut k = crate::bits::fnv64(&self.y);
        k = crate::bits::fnv64_extend(k, &self.cb);
        k = crate::bits::fnv64_extend(k, &self.cr);
        k ^ ((self.w as u64) << 32) ^ (self.h as u64)
    }
}

/// Expected picture: each sample has a primary value and an alternative (equal to the primary
/// unless the ideal transform value sits within floating-point error of a rounding boundary).
#[derive(Clone, Debug)]
pub struct Expect {
    pub w: usize,
    pub h: usize,
    pub y: Vec<u8>,
    pub y_alt: Vec<u8>,
    pub cb: Vec<u8>,
    pub cb_alt: Vec<u8>,
    pub cr: Vec<u8>,
    pub cr_alt: Vec<u8>,
}

impl Expect {
    pub fn primary(&self) -> Planes {
        Planes {
            w: self.w,
            h: self.h,
            y: self.y.clone(),
            cb: self.cb.clone(),
            cr: self.cr.clone(),
        }
    }
    /// Samples where two values are acceptable.
    pub fn tie_samples(&self) -> u64 {
        let c = |a: &[u8], b: &[u8]| a.iter().zip(b.iter()).filter(|(x, y)| x != y).count() as u64;
        c(&self.y, &self.y_alt) + c(&self.cb, &self.cb_alt) + c(&self.cr, &self.cr_alt)
    }
}

#[derive(Clone, Debug, Default)]
pub struct ModelStats {
    pub ac_coefs: u64,
    pub escapes: u64,
    pub coded_blocks: u64,
    pub saturated: u64,
    pub nonzero_mv: u64,
    pub halfpel: u64,
    pub four_v: u64,
    pub cross_left: bool,
    pub cross_right: bool,
    pub cross_top: bool,
    pub cross_bottom: bool,
    pub not_coded: u64,
    pub intra_in_p: u64,
    pub inter_mbs: u64,
    pub truncated_mbs: u64,
    pub dquant_mbs: u64,
    pub wrapped_mv: u64,
}

#[derive(Clone, Debug)]
pub struct ModelOut {
    pub expect: Expect,
    pub stats: ModelStats,
    /// reconstructed luma vectors per macroblock (None = intra / not coded / absent)
    pub mvs: Vec<Option<[(i32, i32); 4]>>,
    /// quantizer in force after each macroblock
    pub quants: Vec<u8>,
}

/// Zig-zag scan order, generated algorithmically: index -> (row, col).
pub fn zigzag() -> [(usize, usize); 64] {
    let mut out = [(0usize, 0usize); 64];
    let mut i = 0;
    for s in 0..15usize {
        // anti-diagonal s: row + col = s; even diagonals run bottom-left -> top-right
        let lo = s.saturating_sub(7);
        let hi = s.min(7);
        if s % 2 == 0 {
            // moving up-right: row decreasing
            let mut r = hi as isize;
            while r >= lo as isize {
                out[i] = (r as usize, s - r as usize);
                i += 1;
                r -= 1;
            }
        } else {
            let mut r = lo;
            while r <= hi {
                out[i] = (r, s - r);
                i += 1;
                r += 1;
            }
        }
    }
    out
}

/// |REC| = QUANT * (2|LEVEL| + 1) - [QUANT even], sign restored, clipped to -2048..2047.
pub fn dequant(level: i32, q: i32) -> i32 {
    if level == 0 {
        return 0;
    }
    let mag = q * (2 * level.abs() + 1) - if q % 2 == 0 { 1 } else { 0 };
    (level.signum() * mag).clamp(-2048, 2047)
}

/// INTRADC reconstruction level: 8 * code, code 255 -> 1024.
pub fn intradc_level(code: u8) -> i32 {
    if code == 255 {
        1024
    } else {
        code as i32 * 8
    }
}

fn cos_table() -> &'static [[f64; 8]; 8] {
    use std::sync::OnceLock;
    static T: OnceLock<[[f64; 8]; 8]> = OnceLock::new();
    T.get_or_init(|| {
        let mut t = [[0.0f64; 8]; 8];
        for u in 0..8 {
            for x in 0..8 {
                let cu = if u == 0 { (0.5f64).sqrt() } else { 1.0 };
                t[u][x] = cu * ((2 * x + 1) as f64 * u as f64 * std::f64::consts::PI / 16.0).cos();
            }
        }
        t
    })
}

/// Ideal inverse DCT: f(y,x) = 1/4 sum_u sum_v C(u)C(v) F(v,u) cos((2x+1)u pi/16) cos((2y+1)v pi/16).
/// `coef[v][u]` = vertical frequency v (row), horizontal frequency u (column).
pub fn idct_f64(coef: &[[f64; 8]; 8]) -> [[f64; 8]; 8] {
    let t = cos_table();
    let mut tmp = [[0.0f64; 8]; 8];
    for v in 0..8 {
        for x in 0..8 {
            let mut s = 0.0;
            for u in 0..8 {
                s += coef[v][u] * t[u][x];
            }
            tmp[v][x] = s;
        }
    }
    let mut out = [[0.0f64; 8]; 8];
    for y in 0..8 {
        for x in 0..8 {
            let mut s = 0.0;
            for v in 0..8 {
                s += tmp[v][x] * t[v][y];
            }
            out[y][x] = s / 4.0;
        }
    }
    out
}

/// Forward DCT (used by the Annex A procedure).
pub fn fdct_f64(px: &[[f64; 8]; 8]) -> [[f64; 8]; 8] {
    let t = cos_table();
    let mut tmp = [[0.0f64; 8]; 8];
    for y in 0..8 {
        for u in 0..8 {
            let mut s = 0.0;
            for x in 0..8 {
                s += px[y][x] * t[u][x];
            }
            tmp[y][u] = s;
        }
    }
    let mut out = [[0.0f64; 8]; 8];
    for v in 0..8 {
        for u in 0..8 {
            let mut s = 0.0;
            for y in 0..8 {
                s += tmp[y][u] * t[v][y];
            }
            out[v][u] = s / 4.0;
        }
    }
    out
}

/// Tolerance half-width around a rounding boundary as a function of the block's coefficient mass.
pub fn tie_eps(mass: f64) -> f64 {
    (1e-6 + 2e-6 * mass).min(0.05)
}

/// Residual of one block: for every sample the rounded ideal value and an alternative when the
/// ideal value is within eps of a rounding boundary. Values are clipped to -256..255.
pub fn block_residual(coef: &[[i32; 8]; 8]) -> ([[i32; 8]; 8], [[i32; 8]; 8]) {
    let mut f = [[0.0f64; 8]; 8];
    let mut mass = 0.0;
    let mut any = false;
    for v in 0..8 {
        for u in 0..8 {
            f[v][u] = coef[v][u] as f64;
            mass += (coef[v][u] as f64).abs();
            any |= coef[v][u] != 0;
        }
    }
    if !any {
        return ([[0; 8]; 8], [[0; 8]; 8]);
    }
    let ideal = idct_f64(&f);
    let eps = tie_eps(mass);
    let mut a = [[0i32; 8]; 8];
    let mut b = [[0i32; 8]; 8];
    for y in 0..8 {
        for x in 0..8 {
            let v = ideal[y][x];
            let r = v.round(); // ties away from zero; the alternative covers the other choice
            let fl = v.floor();
            let frac = v - fl;
            let alt = if (frac - 0.5).abs() <= eps {
                if r == fl {
                    fl + 1.0
                } else {
                    fl
                }
            } else {
                r
            };
            a[y][x] = (r as i32).clamp(-256, 255);
            b[y][x] = (alt as i32).clamp(-256, 255);
        }
    }
    (a, b)
}

/// Sixteenth-position rounding of the sum of four half-sample luma vectors (Table 16/H.263),
/// returning the chroma vector in half-sample units. Symmetric about zero.
pub fn chroma_from_sum(sum: i32) -> i32 {
    let a = sum.abs();
    let whole = (a / 16) * 2;
    let r = match a % 16 {
        0..=2 => whole,
        3..=13 => whole + 1,
        _ => whole + 2,
    };
    sum.signum() * r
}

/// Reconstruct vector = predictor + differential, brought into [-32, 31] half-sample units by
/// adding or subtracting 64 (i.e. 32 samples).
pub fn wrap_mv(pred: i32, diff: i32) -> i32 {
    let mut v = pred + diff;
    if v < -32 {
        v += 64;
    } else if v > 31 {
        v -= 64;
    }
    v
}

fn median3(a: i32, b: i32, c: i32) -> i32 {
    a.max(b).min(a.min(b).max(c))
}

/// Candidate predictor for block `blk` (0..4) of the macroblock at (mx, my).
/// `done[i]` holds the four vectors of earlier macroblocks (None -> contributes zero);
/// `cur` holds the vectors already reconstructed in the current macroblock.
pub fn predict_mv(
    done: &[Option<[(i32, i32); 4]>],
    cur: &[(i32, i32); 4],
    mbw: usize,
    mx: usize,
    my: usize,
    blk: usize,
) -> (i32, i32) {
    let get = |x: usize, y: usize, b: usize| -> (i32, i32) { done[x + y * mbw].map(|m| m[b]).unwrap_or((0, 0)) };
    // MV1
    let mv1 = match blk {
        0 | 2 => {
            if mx == 0 {
                (0, 0)
            } else {
                get(mx - 1, my, blk + 1)
            }
        }
        1 => cur[0],
        _ => cur[2],
    };
    // MV2, MV3
    let (mv2, mv3) = match blk {
        0 | 1 => {
            if my == 0 {
                (mv1, mv1)
            } else {
                let mv2 = get(mx, my - 1, blk + 2);
                let mv3 = if mx + 1 >= mbw { (0, 0) } else { get(mx + 1, my - 1, 2) };
                (mv2, mv3)
            }
        }
        _ => (cur[0], cur[1]),
    };
    (median3(mv1.0, mv2.0, mv3.0), median3(mv1.1, mv2.1, mv3.1))
}

#[inline]
fn fetch(plane: &[u8], pw: usize, ph: usize, x: isize, y: isize) -> i32 {
    let xx = x.clamp(0, pw as isize - 1) as usize;
    let yy = y.clamp(0, ph as isize - 1) as usize;
    plane[xx + yy * pw] as i32
}

/// Motion-compensated 8x8 prediction of the block whose top-left is (bx, by), vector in
/// half-sample units. Returns values for all 64 positions (the caller crops).
pub fn predict_block(plane: &[u8], pw: usize, ph: usize, bx: usize, by: usize, mv: (i32, i32)) -> [[i32; 8]; 8] {
    let ix = mv.0.div_euclid(2) as isize;
    let fx = mv.0.rem_euclid(2) == 1;
    let iy = mv.1.div_euclid(2) as isize;
    let fy = mv.1.rem_euclid(2) == 1;
    let mut out = [[0i32; 8]; 8];
    for y in 0..8 {
        for x in 0..8 {
            let sx = bx as isize + x as isize + ix;
            let sy = by as isize + y as isize + iy;
            let a = fetch(plane, pw, ph, sx, sy);
            out[y][x] = match (fx, fy) {
                (false, false) => a,
                (true, false) => (a + fetch(plane, pw, ph, sx + 1, sy) + 1) >> 1,
                (false, true) => (a + fetch(plane, pw, ph, sx, sy + 1) + 1) >> 1,
                (true, true) => {
                    (a + fetch(plane, pw, ph, sx + 1, sy) + fetch(plane, pw, ph, sx, sy + 1) + fetch(plane, pw, ph, sx + 1, sy + 1) + 2) >> 2
                }
            };
        }
    }
    out
}

/// Build the coefficient array (row = vertical frequency, col = horizontal) of one block.
/// Returns Err if the events run past the 64th coefficient (invalid block).
pub fn block_coefficients(b: &Blk, intra: bool, q: u8, stats: &mut ModelStats) -> Result<[[i32; 8]; 8], String> {
    let zz = zigzag();
    let mut c = [[0i32; 8]; 8];
    let mut idx = 0usize;
    if intra {
        c[0][0] = intradc_level(b.dc);
        idx = 1;
    }
    for ev in &b.events {
        idx += ev.run as usize;
        if idx > 63 {
            return Err(format!("run/level events address coefficient {} (> 63)", idx));
        }
        let (r, col) = zz[idx];
        let v = dequant(ev.level as i32, q as i32);
        if v == -2048 || v == 2047 {
            stats.saturated += 1;
        }
        c[r][col] = v;
        stats.ac_coefs += 1;
        idx += 1;
    }
    if !b.events.is_empty() {
        stats.coded_blocks += 1;
    }
    Ok(c)
}

/// Reconstruct a picture. `reference` is required for inter pictures that contain any
/// non-intra macroblock. Errors describe why the AST is outside the model's (valid) domain.
pub fn reconstruct(pic: &Pic, reference: Option<&Planes>) -> Result<ModelOut, String> {
    let (w, h) = pic.hdr.dims().ok_or("reserved size")?;
    if w == 0 || h == 0 {
        return Err("zero dimension".into());
    }
    let mbw = (w + 15) / 16;
    let mbh = (h + 15) / 16;
    let total = mbw * mbh;
    if pic.mbs.len() > total {
        return Err("more macroblocks than the picture holds".into());
    }
    let inter_pic = pic.hdr.ptype.is_inter();
    let cw = (w + 1) / 2;
    let ch = (h + 1) / 2;
    let mut ex = Expect {
        w,
        h,
        y: vec![0; w * h],
        y_alt: vec![0; w * h],
        cb: vec![0; cw * ch],
        cb_alt: vec![0; cw * ch],
        cr: vec![0; cw * ch],
        cr_alt: vec![0; cw * ch],
    };
    let mut stats = ModelStats::default();
    let mut mvs: Vec<Option<[(i32, i32); 4]>> = Vec::with_capacity(total);
    let mut quants = Vec::with_capacity(total);
    let mut q = pic.hdr.quant;
    if !(1..=31).contains(&q) {
        return Err("PQUANT outside 1..31".into());
    }
    if let Some(r) = reference {
        if inter_pic && (r.w != w || r.h != h) {
            return Err("reference of another size".into());
        }
    }

    for i in 0..total {
        let mx = i % mbw;
        let my = i / mbw;
        let absent = Mb::not_coded();
        let (mb, truncated) = match pic.mbs.get(i) {
            Some(m) => (m, false),
            None => (&absent, true),
        };
        if truncated {
            stats.truncated_mbs += 1;
        }
        if mb.kind == MbKind::NotCoded && !inter_pic && !truncated {
            return Err("not-coded macroblock in an intra picture".into());
        }
        if mb.kind.is_inter_coded() && !inter_pic {
            return Err("inter macroblock in an intra picture".into());
        }
        if mb.kind.has_q() {
            q = (q as i32 + mb.dquant as i32).clamp(1, 31) as u8;
            stats.dquant_mbs += 1;
        }
        quants.push(q);

        // --- vectors
        let mut cur = [(0i32, 0i32); 4];
        let mv_entry = if mb.kind.is_inter_coded() {
            stats.inter_mbs += 1;
            if mb.kind.has_4v() {
                stats.four_v += 1;
                for b in 0..4 {
                    let p = predict_mv(&mvs, &cur, mbw, mx, my, b);
                    let vx = wrap_mv(p.0, mb.mvd[b].0 as i32);
                    let vy = wrap_mv(p.1, mb.mvd[b].1 as i32);
                    if vx != p.0 + mb.mvd[b].0 as i32 || vy != p.1 + mb.mvd[b].1 as i32 {
                        stats.wrapped_mv += 1;
                    }
                    cur[b] = (vx, vy);
                }
            } else {
                let p = predict_mv(&mvs, &cur, mbw, mx, my, 0);
                let vx = wrap_mv(p.0, mb.mvd[0].0 as i32);
                let vy = wrap_mv(p.1, mb.mvd[0].1 as i32);
                if vx != p.0 + mb.mvd[0].0 as i32 || vy != p.1 + mb.mvd[0].1 as i32 {
                    stats.wrapped_mv += 1;
                }
                cur = [(vx, vy); 4];
            }
            Some(cur)
        } else {
            None
        };
        mvs.push(mv_entry);

        // --- prediction
        let intra = mb.kind.is_intra();
        if intra && inter_pic {
            stats.intra_in_p += 1;
        }
        if mb.kind == MbKind::NotCoded {
            stats.not_coded += 1;
        }
        let mut pred_y = [[[0i32; 8]; 8]; 4];
        let mut pred_c = [[[0i32; 8]; 8]; 2];
        if !intra {
            let r = reference.ok_or("prediction needed but no reference picture")?;
            for b in 0..4 {
                let bx = mx * 16 + (b % 2) * 8;
                let by = my * 16 + (b / 2) * 8;
                let v = cur[b];
                if v != (0, 0) {
                    stats.nonzero_mv += 1;
                }
                if v.0 & 1 != 0 || v.1 & 1 != 0 {
                    stats.halfpel += 1;
                }
                // does the 8x8 (or 9x9 when interpolating) source window leave the picture?
                let x_lo = bx as i32 + v.0.div_euclid(2);
                let y_lo = by as i32 + v.1.div_euclid(2);
                let x_hi = x_lo + 7 + v.0.rem_euclid(2);
                let y_hi = y_lo + 7 + v.1.rem_euclid(2);
                if x_lo < 0 {
                    stats.cross_left = true;
                }
                if y_lo < 0 {
                    stats.cross_top = true;
                }
                if x_hi > r.w as i32 - 1 && bx + 8 <= r.w {
                    stats.cross_right = true;
                }
                if y_hi > r.h as i32 - 1 && by + 8 <= r.h {
                    stats.cross_bottom = true;
                }
                pred_y[b] = predict_block(&r.y, r.w, r.h, bx, by, v);
            }
            let sum = (
                cur[0].0 + cur[1].0 + cur[2].0 + cur[3].0,
                cur[0].1 + cur[1].1 + cur[2].1 + cur[3].1,
            );
            let cv = (chroma_from_sum(sum.0), chroma_from_sum(sum.1));
            pred_c[0] = predict_block(&r.cb, r.cw(), r.ch(), mx * 8, my * 8, cv);
            pred_c[1] = predict_block(&r.cr, r.cw(), r.ch(), mx * 8, my * 8, cv);
        }

        // --- residual and store
        for b in 0..6 {
            let blk = &mb.blocks[b];
            let (res_a, res_b) = if mb.kind == MbKind::NotCoded {
                ([[0; 8]; 8], [[0; 8]; 8])
            } else {
                let c = block_coefficients(blk, intra, q, &mut stats)?;
                block_residual(&c)
            };
            let (plane, plane_alt, pw, ph, ox, oy, pred) = if b < 4 {
                (&mut ex.y, &mut ex.y_alt, w, h, mx * 16 + (b % 2) * 8, my * 16 + (b / 2) * 8, &pred_y[b])
            } else if b == 4 {
                (&mut ex.cb, &mut ex.cb_alt, cw, ch, mx * 8, my * 8, &pred_c[0])
            } else {
                (&mut ex.cr, &mut ex.cr_alt, cw, ch, mx * 8, my * 8, &pred_c[1])
            };
            for yy in 0..8 {
                let py = oy + yy;
                if py >= ph {
                    break;
                }
                for xx in 0..8 {
                    let px = ox + xx;
                    if px >= pw {
                        break;
                    }
                    plane[px + py * pw] = (pred[yy][xx] + res_a[yy][xx]).clamp(0, 255) as u8;
                    plane_alt[px + py * pw] = (pred[yy][xx] + res_b[yy][xx]).clamp(0, 255) as u8;
                }
            }
        }
    }
    // count escapes (statistics only)
    for mb in &pic.mbs {
        for b in &mb.blocks {
            let n = b.events.len();
            for (i, ev) in b.events.iter().enumerate() {
                if ev.force_escape || !has_short_code(i + 1 == n, ev.run, ev.level.unsigned_abs()) {
                    stats.escapes += 1;
                }
            }
        }
    }
    Ok(ModelOut {
        expect: ex,
        stats,
        mvs,
        quants,
    })
}

/// Compare decoder planes with the expectation. Returns Ok(number of samples that used the
/// alternative value) or a description of the first mismatch.
pub fn compare(ex: &Expect, y: &[u8], cb: &[u8], cr: &[u8]) -> Result<u64, String> {
    let cw = (ex.w + 1) / 2;
    let mut tol = 0u64;
    let mut chk = |name: &str, got: &[u8], a: &[u8], b: &[u8], pw: usize| -> Result<(), String> {
        if got.len() != a.len() {
            return Err(format!("{} plane has {} samples, expected {}", name, got.len(), a.len()));
        }
        for i in 0..got.len() {
            if got[i] != a[i] {
                if got[i] == b[i] {
                    tol += 1;
                } else {
                    return Err(format!(
                        "{} sample ({},{}) = {}, reference reconstruction gives {}{}",
                        name,
                        i % pw,
                        i / pw,
                        got[i],
                        a[i],
                        if a[i] != b[i] { format!(" (or {} at the rounding boundary)", b[i]) } else { String::new() }
                    ));
                }
            }
        }
        Ok(())
    };
    chk("luma", y, &ex.y, &ex.y_alt, ex.w)?;
    chk("Cb", cb, &ex.cb, &ex.cb_alt, cw)?;
    chk("Cr", cr, &ex.cr, &ex.cr_alt, cw)?;
    Ok(tol)
}
