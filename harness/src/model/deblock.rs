//! H.263 Annex J deblocking edge filter, scalar integer reference (divisions truncate toward 0).

/// Table J.2/H.263: STRENGTH as a function of QUANT 1..=31 (index 0 unused).
pub const TABLE_J2: [u8; 32] = [
    0, 1, 1, 2, 2, 3, 3, 4, 4, 4, 5, 5, 6, 6, 7, 7, 7, 8, 8, 8, 9, 9, 9, 10, 10, 10, 11, 11, 11, 12,
    12, 12,
];

#[inline]
fn up_down_ramp(x: i32, strength: i32) -> i32 {
    // Figure J.2: UpDownRamp(x, S) = SIGN(x) * MAX(0, abs(x) - MAX(0, 2*(abs(x) - S)))
    let a = x.abs();
    x.signum() * (a - (2 * (a - strength)).max(0)).max(0)
}

/// One four-sample filter across a block edge. Rust's `/` on integers truncates toward zero.
#[inline]
pub fn filter4(a: u8, b: u8, c: u8, d: u8, strength: u8) -> (u8, u8, u8, u8) {
    let (a, b, c, d) = (a as i32, b as i32, c as i32, d as i32);
    let dd = (a - 4 * b + 4 * c - d) / 8;
    let d1 = up_down_ramp(dd, strength as i32);
    let lim = (d1 / 2).abs();
    let d2 = ((a - d) / 4).clamp(-lim, lim);
    let b1 = (b + d1).clamp(0, 255);
    let c1 = (c - d1).clamp(0, 255);
    let a1 = a - d2;
    let d1o = d + d2;
    debug_assert!((0..=255).contains(&a1) && (0..=255).contains(&d1o));
    (a1 as u8, b1 as u8, c1 as u8, d1o as u8)
}

/// Whole-image reference: horizontal block edges first, then vertical ones.
pub fn deblock_ref(data: &[u8], width: usize, strength: u8) -> Vec<u8> {
    let mut img = data.to_vec();
    if width == 0 {
        return img;
    }
    let height = data.len() / width;
    // horizontal edges: rows y-2, y-1 | y, y+1
    let mut y = 8;
    while y + 1 < height {
        for x in 0..width {
            let (ia, ib, ic, id) = (
                x + (y - 2) * width,
                x + (y - 1) * width,
                x + y * width,
                x + (y + 1) * width,
            );
            let (a, b, c, d) = filter4(img[ia], img[ib], img[ic], img[id], strength);
            img[ia] = a;
            img[ib] = b;
            img[ic] = c;
            img[id] = d;
        }
        y += 8;
    }
    // vertical edges: columns x-2, x-1 | x, x+1
    let mut x = 8;
    while x + 1 < width {
        for row in 0..height {
            let base = row * width;
            let (a, b, c, d) = filter4(
                img[base + x - 2],
                img[base + x - 1],
                img[base + x],
                img[base + x + 1],
                strength,
            );
            img[base + x - 2] = a;
            img[base + x - 1] = b;
            img[base + x] = c;
            img[base + x + 1] = d;
        }
        x += 8;
    }
    img
}
