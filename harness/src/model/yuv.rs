//! BT.601 studio-range -> full-range RGB, integer 16.16 model and real-valued model.

/// The five 16.16 coefficients, recomputed from the BT.601 definitions (not copied).
pub fn coefficients() -> [i64; 5] {
    let ys = 255.0f64 / 219.0;
    let cs = 255.0f64 / 224.0;
    let r = |x: f64| (x * 65536.0).round() as i64;
    [
        r(ys),                                  // Y  -> R,G,B
        r(cs * 1.402),                          // Cr -> R
        r(-cs * 1.402 * (0.299 / 0.587)),       // Cr -> G
        r(-cs * 1.772 * (0.114 / 0.587)),       // Cb -> G
        r(cs * 1.772),                          // Cb -> B
    ]
}

#[inline]
pub fn rgba_int(c: &[i64; 5], y: u8, cb: u8, cr: u8) -> [u8; 4] {
    let y = y as i64 - 16;
    let cb = cb as i64 - 128;
    let cr = cr as i64 - 128;
    let half = 32768i64;
    // arithmetic shift = floor, i.e. round-to-nearest after adding one half
    let r = (c[0] * y + c[1] * cr + half) >> 16;
    let g = (c[0] * y + c[2] * cr + c[3] * cb + half) >> 16;
    let b = (c[0] * y + c[4] * cb + half) >> 16;
    [
        r.clamp(0, 255) as u8,
        g.clamp(0, 255) as u8,
        b.clamp(0, 255) as u8,
        255,
    ]
}

/// Real-valued conversion, clamped to 0..255 (not rounded).
#[inline]
pub fn rgb_real(y: u8, cb: u8, cr: u8) -> [f64; 3] {
    let ys = 255.0f64 / 219.0;
    let cs = 255.0f64 / 224.0;
    let y = y as f64 - 16.0;
    let cb = cb as f64 - 128.0;
    let cr = cr as f64 - 128.0;
    let r = ys * y + cs * 1.402 * cr;
    let g = ys * y - cs * 1.772 * (0.114 / 0.587) * cb - cs * 1.402 * (0.299 / 0.587) * cr;
    let b = ys * y + cs * 1.772 * cb;
    [r.clamp(0.0, 255.0), g.clamp(0.0, 255.0), b.clamp(0.0, 255.0)]
}

/// Whole-picture model: pixel (x, y) = conversion of luma (x, y) with chroma (x/2, y/2).
pub fn picture_rgba(y: &[u8], cb: &[u8], cr: &[u8], w: usize) -> Vec<u8> {
    if y.is_empty() {
        return Vec::new();
    }
    let c = coefficients();
    let h = y.len() / w;
    let cw = (w + 1) / 2;
    let mut out = Vec::with_capacity(w * h * 4);
    for py in 0..h {
        for px in 0..w {
            let ci = (px / 2) + (py / 2) * cw;
            out.extend_from_slice(&rgba_int(&c, y[px + py * w], cb[ci], cr[ci]));
        }
    }
    out
}
