//! Reference models (oracles). Nothing in here calls the code under test.
pub mod deblock;
pub mod yuv;
pub mod recon;
