//! Seeded parallel driver: proptest-owned random suites over choice tapes, exhaustive suites over
//! finite domains, panic capture, shrinking, replay files, evidence files, known findings.

use crate::bits::fnv64;
use crate::gen::Gen;
use proptest::strategy::Strategy;
use proptest::test_runner::{Config, RngSeed, TestCaseError, TestError, TestRunner};
use rayon::prelude::*;
use serde_json::{json, Map, Value};
use std::cell::RefCell;
use std::collections::{BTreeMap, HashSet};
use std::panic::{catch_unwind, AssertUnwindSafe};
use std::path::PathBuf;
use std::sync::atomic::{AtomicBool, Ordering};
use std::time::Instant;

#[derive(Clone, Copy, PartialEq, Eq, Debug)]
pub enum Tier {
    Quick,
    Thorough,
}

impl Tier {
    pub fn name(self) -> &'static str {
        match self {
            Tier::Quick => "quick",
            Tier::Thorough => "thorough",
        }
    }
    /// Pick a budget by tier.
    pub fn pick<T>(self, quick: T, thorough: T) -> T {
        match self {
            Tier::Quick => quick,
            Tier::Thorough => thorough,
        }
    }
}

#[derive(Clone, Debug)]
pub struct KnownFinding {
    pub status: String, // "known" | "fixed"
    pub property: String,
    pub signature: String,
    pub what: String,
}

pub struct Ctx {
    pub prop: String,
    pub tier: Tier,
    pub seed: u64,
    pub threads: usize,
    pub root: PathBuf,
    pub start: Instant,
    pub known: Vec<KnownFinding>,
}

impl Ctx {
    pub fn new(prop: &str, tier: Tier, seed: u64) -> Ctx {
        let root = verif_root();
        let threads = std::env::var("VERIF_THREADS")
            .ok()
            .and_then(|s| s.parse().ok())
            .unwrap_or_else(|| {
                std::thread::available_parallelism()
                    .map(|n| n.get())
                    .unwrap_or(4)
            })
            .max(1);
        let known = load_known(&root);
        Ctx {
            prop: prop.to_string(),
            tier,
            seed,
            threads,
            root,
            start: Instant::now(),
            known,
        }
    }

    /// Is `signature` listed as a known (unrepaired) finding for this property?
    pub fn is_known(&self, signature: &str) -> bool {
        self.known
            .iter()
            .any(|k| k.status == "known" && k.property == self.prop && k.signature == signature)
    }
}

pub fn verif_root() -> PathBuf {
    if let Ok(r) = std::env::var("VERIF_ROOT") {
        return PathBuf::from(r);
    }
    let mut p = PathBuf::from(env!("CARGO_MANIFEST_DIR"));
    p.pop();
    p
}

fn load_known(root: &PathBuf) -> Vec<KnownFinding> {
    let mut out = Vec::new();
    if let Ok(s) = std::fs::read_to_string(root.join("known_findings.jsonl")) {
        for line in s.lines() {
            let line = line.trim();
            if line.is_empty() || line.starts_with('#') {
                continue;
            }
            if let Ok(v) = serde_json::from_str::<Value>(line) {
                out.push(KnownFinding {
                    status: v["status"].as_str().unwrap_or("").to_string(),
                    property: v["property"].as_str().unwrap_or("").to_string(),
                    signature: v["signature"].as_str().unwrap_or("").to_string(),
                    what: v["what"].as_str().unwrap_or("").to_string(),
                });
            }
        }
    }
    out
}

// ------------------------------------------------------------------------------------------------
// Verdicts

pub type Labels = Vec<&'static str>;

pub enum Verdict {
    /// The oracle accepted the case. `key` identifies the case for distinctness counting.
    Pass {
        nontrivial: bool,
        key: u64,
        labels: Labels,
    },
    /// The generator produced something outside the asserted domain (counted, not judged).
    Excluded(&'static str),
    /// The oracle rejected the case. `signature` is a semantic class used only for matching
    /// against known findings.
    Fail { msg: String, signature: Option<String> },
}

impl Verdict {
    pub fn pass(nontrivial: bool, key: u64) -> Verdict {
        Verdict::Pass {
            nontrivial,
            key,
            labels: Vec::new(),
        }
    }
    pub fn pass_l(nontrivial: bool, key: u64, labels: Labels) -> Verdict {
        Verdict::Pass {
            nontrivial,
            key,
            labels,
        }
    }
    pub fn fail(msg: impl Into<String>) -> Verdict {
        Verdict::Fail {
            msg: msg.into(),
            signature: None,
        }
    }
    pub fn fail_sig(msg: impl Into<String>, sig: &str) -> Verdict {
        Verdict::Fail {
            msg: msg.into(),
            signature: Some(sig.to_string()),
        }
    }
    pub fn is_fail(&self) -> bool {
        matches!(self, Verdict::Fail { .. })
    }
}

// ------------------------------------------------------------------------------------------------
// Panic capture

thread_local! {
    static LAST_PANIC: RefCell<Option<String>> = RefCell::new(None);
}

pub fn install_panic_hook() {
    std::panic::set_hook(Box::new(|info| {
        let msg = if let Some(s) = info.payload().downcast_ref::<&str>() {
            s.to_string()
        } else if let Some(s) = info.payload().downcast_ref::<String>() {
            s.clone()
        } else {
            "<non-string panic payload>".to_string()
        };
        let loc = info
            .location()
            .map(|l| format!("{}:{}", l.file(), l.line()))
            .unwrap_or_default();
        LAST_PANIC.with(|p| *p.borrow_mut() = Some(format!("{} at {}", msg, loc)));
    }));
}

/// Run `f`, turning a panic into `Err(description)`.
pub fn guard<T>(f: impl FnOnce() -> T) -> Result<T, String> {
    match catch_unwind(AssertUnwindSafe(f)) {
        Ok(v) => Ok(v),
        Err(_) => Err(LAST_PANIC
            .with(|p| p.borrow_mut().take())
            .unwrap_or_else(|| "panic (no message)".to_string())),
    }
}

// ------------------------------------------------------------------------------------------------
// Reports

#[derive(Clone, Debug)]
pub struct Failure {
    pub suite: String,
    pub msg: String,
    pub signature: Option<String>,
    /// Replayable case: {"kind":"tape","tape":[..]} or {"kind":"params", ...}
    pub case: Value,
    pub description: Option<Value>,
}

#[derive(Default, Clone, Debug)]
pub struct SuiteReport {
    pub name: String,
    pub evaluations: u64,
    pub distinct_nontrivial: u64,
    pub labels: BTreeMap<String, u64>,
    pub excluded: BTreeMap<String, u64>,
    pub samples: Vec<Value>,
    pub exhaustive: bool,
    pub failure: Option<Failure>,
    pub notes: Vec<String>,
    pub extra: Map<String, Value>,
}

// ------------------------------------------------------------------------------------------------
// Random suites (proptest over choice tapes)

struct WorkerStats {
    evals: u64,
    keys: HashSet<u64>,
    labels: BTreeMap<&'static str, u64>,
    excluded: BTreeMap<&'static str, u64>,
    samples: Vec<Value>,
    failed: bool,
    fail_sig: Option<String>,
}

fn mix_seed(seed: u64, name: &str, worker: usize) -> u64 {
    let mut h = fnv64(name.as_bytes());
    h ^= seed.wrapping_mul(0x9E3779B97F4A7C15);
    h = h.rotate_left(17) ^ (worker as u64).wrapping_mul(0xD6E8FEB86659FD93);
    h ^ (h >> 29)
}

static STOP: AtomicBool = AtomicBool::new(false);

/// Wall-clock bound on shrinking (VERIF_SHRINK_SECS, default 25); the failure is reported either way.
fn shrink_secs() -> u64 {
    std::env::var("VERIF_SHRINK_SECS").ok().and_then(|v| v.parse().ok()).unwrap_or(25)
}

// ------------------------------------------------------------------------------------------------
// Journal: when the supervisor asks for it (VERIF_JOURNAL_DIR), every worker thread writes the
// tape of the case it is about to run to its own small file first. The data reaches the kernel
// before the case runs, so it survives an abort / stack overflow of this process and lets the
// supervisor identify the culprit.

static CURRENT_SUITE: std::sync::Mutex<String> = std::sync::Mutex::new(String::new());

fn journal_dir() -> &'static Option<PathBuf> {
    static D: std::sync::OnceLock<Option<PathBuf>> = std::sync::OnceLock::new();
    D.get_or_init(|| std::env::var("VERIF_JOURNAL_DIR").ok().map(PathBuf::from))
}

thread_local! {
    static JOURNAL_FILE: RefCell<Option<std::fs::File>> = RefCell::new(None);
}

fn journal_write(tape: &[u32]) {
    use std::io::{Seek, SeekFrom, Write};
    let dir = match journal_dir() {
        Some(d) => d,
        None => return,
    };
    JOURNAL_FILE.with(|jf| {
        let mut jf = jf.borrow_mut();
        if jf.is_none() {
            static N: std::sync::atomic::AtomicUsize = std::sync::atomic::AtomicUsize::new(0);
            let id = N.fetch_add(1, Ordering::SeqCst);
            *jf = std::fs::File::create(dir.join(format!("worker-{}.bin", id))).ok();
        }
        if let Some(f) = jf.as_mut() {
            let suite = CURRENT_SUITE.lock().map(|s| s.clone()).unwrap_or_default();
            let mut buf: Vec<u8> = Vec::with_capacity(16 + suite.len() + tape.len() * 4);
            buf.extend_from_slice(&(suite.len() as u32).to_le_bytes());
            buf.extend_from_slice(suite.as_bytes());
            buf.extend_from_slice(&(tape.len() as u32).to_le_bytes());
            for w in tape {
                buf.extend_from_slice(&w.to_le_bytes());
            }
            let _ = f.seek(SeekFrom::Start(0));
            let _ = f.write_all(&buf);
        }
    });
}

/// Exhaustive suites journal the index of the item a thread is about to run (as a one-word
/// "tape" under the pseudo-suite name "item:<suite>").
fn journal_write_item(suite: &str, i: u64) {
    if journal_dir().is_none() {
        return;
    }
    if let Ok(mut cs) = CURRENT_SUITE.lock() {
        if !cs.starts_with("item:") || &cs[5..] != suite {
            *cs = format!("item:{}", suite);
        }
    }
    journal_write(&[(i >> 32) as u32, i as u32]);
}

/// `VERIF_ONLY_ITEM=<suite>:<index>`: run nothing but that one item of that exhaustive suite (used
/// by the supervisor to find the item that killed a worker, and by the replay of such a finding).
pub fn only_item() -> Option<(String, u64)> {
    let v = std::env::var("VERIF_ONLY_ITEM").ok()?;
    let (s, i) = v.rsplit_once(':')?;
    Some((s.to_string(), i.parse().ok()?))
}

/// Read back the journalled (suite, tape) pairs of a dead worker process.
pub fn journal_read(dir: &std::path::Path) -> Vec<(String, Vec<u32>)> {
    let mut out = Vec::new();
    let mut files: Vec<_> = std::fs::read_dir(dir).map(|d| d.filter_map(|e| e.ok()).map(|e| e.path()).collect()).unwrap_or_default();
    files.sort();
    for p in files {
        let b = match std::fs::read(&p) {
            Ok(b) => b,
            Err(_) => continue,
        };
        let rd = |i: usize| -> Option<u32> { b.get(i..i + 4).map(|x| u32::from_le_bytes([x[0], x[1], x[2], x[3]])) };
        let sl = match rd(0) {
            Some(v) => v as usize,
            None => continue,
        };
        let suite = match b.get(4..4 + sl) {
            Some(s) => String::from_utf8_lossy(s).to_string(),
            None => continue,
        };
        let n = match rd(4 + sl) {
            Some(v) => v as usize,
            None => continue,
        };
        let mut tape = Vec::with_capacity(n);
        for k in 0..n {
            match rd(8 + sl + 4 * k) {
                Some(w) => tape.push(w),
                None => break,
            }
        }
        if tape.len() == n {
            out.push((suite, tape));
        }
    }
    out
}

thread_local! {
    /// did the last case on this thread ask for more words than its tape held?
    pub static LAST_EXHAUSTED: std::cell::Cell<bool> = std::cell::Cell::new(false);
}

pub fn run_case(f: &(dyn Fn(&mut Gen) -> Verdict + Sync), tape: &[u32], want_desc: bool) -> (Verdict, Option<Value>) {
    let mut g = Gen::new(tape);
    g.want_desc = want_desc;
    journal_write(tape);
    let watched = WATCH_ON.load(Ordering::Relaxed);
    if watched {
        watch_enter(tape);
    }
    let r = guard(|| f(&mut g));
    if watched {
        watch_leave();
    }
    let desc = g.desc.take();
    LAST_EXHAUSTED.with(|c| c.set(g.consumed() > tape.len()));
    match r {
        Ok(v) => (v, desc),
        Err(p) => (
            Verdict::Fail {
                msg: format!("HARNESS: panic outside the guarded calls while running a case: {}", p),
                signature: None,
            },
            desc,
        ),
    }
}

/// Run `cases` generated cases of `f`, split over the context's worker threads. Each worker owns a
/// proptest `TestRunner` with a seed derived from (VERIF_SEED, suite name, worker index); on a
/// failure proptest shrinks the tape and the minimal failing tape is reported.
pub fn tape_suite(
    ctx: &Ctx,
    name: &str,
    cases: u64,
    tape_len: usize,
    f: &(dyn Fn(&mut Gen) -> Verdict + Sync),
) -> SuiteReport {
    if only_item().is_some() {
        return SuiteReport { name: name.to_string(), ..Default::default() };
    }
    if let Ok(mut cs) = CURRENT_SUITE.lock() {
        *cs = name.to_string();
    }
    let threads = ctx.threads.min(cases.max(1) as usize).max(1);
    let per = cases / threads as u64;
    let extra = cases % threads as u64;
    STOP.store(false, Ordering::SeqCst);

    let results: Vec<(WorkerStats, Option<(Vec<u32>, String)>)> = std::thread::scope(|s| {
        let handles: Vec<_> = (0..threads)
            .map(|w| {
                let n = per + if (w as u64) < extra { 1 } else { 0 };
                let seed = mix_seed(ctx.seed, name, w);
                s.spawn(move || worker(w, n, seed, tape_len, f))
            })
            .collect();
        handles.into_iter().map(|h| h.join().expect("worker thread died")).collect()
    });

    let mut rep = SuiteReport {
        name: name.to_string(),
        ..Default::default()
    };
    let mut keys: HashSet<u64> = HashSet::new();
    for (st, fail) in results {
        rep.evaluations += st.evals;
        for (k, v) in st.labels {
            *rep.labels.entry(k.to_string()).or_default() += v;
        }
        for (k, v) in st.excluded {
            *rep.excluded.entry(k.to_string()).or_default() += v;
        }
        if rep.samples.len() < 4 {
            rep.samples.extend(st.samples.into_iter().take(2));
        }
        if keys.is_empty() {
            keys = st.keys;
        } else {
            keys.extend(st.keys);
        }
        if rep.failure.is_none() {
            if let Some((tape, msg)) = fail {
                // proptest's vector shrinking deletes and lowers words; two cheap deterministic
                // passes on top of it (prefix truncation, zeroing blocks) simplify what is left
                let tape = post_shrink(f, tape);
                // re-run the minimal tape once more to obtain its description and signature
                let (v, desc) = run_case(f, &tape, true);
                let (msg2, sig) = match v {
                    Verdict::Fail { msg, signature } => (msg, signature),
                    _ => (msg.clone(), st.fail_sig.clone()),
                };
                rep.failure = Some(Failure {
                    suite: name.to_string(),
                    msg: msg2,
                    signature: sig,
                    case: json!({"kind": "tape", "tape": tape}),
                    description: desc,
                });
            }
        }
    }
    rep.distinct_nontrivial = keys.len() as u64;
    rep
}

/// Greedy simplification of a failing tape: keep a change whenever the case still fails.
/// Bounded by attempts and wall clock; purely deterministic.
fn post_shrink(f: &(dyn Fn(&mut Gen) -> Verdict + Sync), mut tape: Vec<u32>) -> Vec<u32> {
    let t0 = Instant::now();
    let limit = shrink_secs().min(15);
    let fails = |t: &[u32]| -> bool { run_case(f, t, false).0.is_fail() };
    let mut attempts = 0u32;
    // 1. shortest failing prefix (an exhausted tape yields the simplest choices)
    let (mut lo, mut hi) = (0usize, tape.len());
    while lo < hi && attempts < 64 {
        let mid = (lo + hi) / 2;
        attempts += 1;
        if fails(&tape[..mid]) {
            hi = mid;
        } else {
            lo = mid + 1;
        }
    }
    if hi < tape.len() && fails(&tape[..hi]) {
        tape.truncate(hi);
    }
    // 2. zero blocks of words, large blocks first, from the end toward the start
    for block in [256usize, 64, 16, 4, 1] {
        let mut end = tape.len();
        while end > 0 {
            if attempts > 3000 || t0.elapsed().as_secs() >= limit {
                return tape;
            }
            let start = end.saturating_sub(block);
            if tape[start..end].iter().any(|w| *w != 0) {
                let saved: Vec<u32> = tape[start..end].to_vec();
                for w in tape[start..end].iter_mut() {
                    *w = 0;
                }
                attempts += 1;
                if !fails(&tape) {
                    tape[start..end].copy_from_slice(&saved);
                }
            }
            end = start;
        }
    }
    // trailing zeros carry no information
    while tape.last() == Some(&0) {
        tape.pop();
    }
    tape
}

fn worker(
    w: usize,
    n: u64,
    seed: u64,
    tape_len: usize,
    f: &(dyn Fn(&mut Gen) -> Verdict + Sync),
) -> (WorkerStats, Option<(Vec<u32>, String)>) {
    let stats = RefCell::new(WorkerStats {
        evals: 0,
        keys: HashSet::new(),
        labels: BTreeMap::new(),
        excluded: BTreeMap::new(),
        samples: Vec::new(),
        failed: false,
        fail_sig: None,
    });
    if n == 0 {
        return (stats.into_inner(), None);
    }
    let mut cfg = Config::default();
    cfg.cases = n.min(u32::MAX as u64) as u32;
    cfg.failure_persistence = None;
    cfg.rng_seed = RngSeed::Fixed(seed);
    cfg.max_shrink_iters = 30_000;
    cfg.max_global_rejects = 1;
    cfg.verbose = 0;
    cfg.source_file = None;
    let mut runner = TestRunner::new(cfg);
    // Tape lengths between half and all of the suite's maximum: generators that need more choices
    // than they get fall back to the simplest alternatives, so very short tapes starve the choices
    // made late in a case. (Shrinking below the minimum length is done by `post_shrink`.)
    let strategy = proptest::collection::vec(proptest::num::u32::ANY, tape_len / 2..=tape_len);
    let shrink_start: RefCell<Option<Instant>> = RefCell::new(None);
    let result = runner.run(&strategy, |tape| {
        let already_failed = stats.borrow().failed;
        if !already_failed && STOP.load(Ordering::Relaxed) {
            return Ok(());
        }
        if already_failed {
            // shrinking phase: bound it by wall clock as a safety net (result is still a failure)
            if let Some(t0) = *shrink_start.borrow() {
                if t0.elapsed().as_secs() > shrink_secs() {
                    return Ok(());
                }
            }
        }
        let want_desc = !already_failed && w == 0 && stats.borrow().samples.len() < 3;
        let (v, desc) = run_case(f, &tape, want_desc);
        let mut st = stats.borrow_mut();
        match v {
            Verdict::Pass {
                nontrivial,
                key,
                labels,
            } => {
                if !st.failed {
                    st.evals += 1;
                    if nontrivial {
                        st.keys.insert(key);
                        if let Some(d) = desc {
                            if st.samples.len() < 3 {
                                st.samples.push(d);
                            }
                        }
                    }
                    for l in labels {
                        *st.labels.entry(l).or_default() += 1;
                    }
                    if LAST_EXHAUSTED.with(|c| c.get()) {
                        *st.labels.entry("(generator asked for more choices than the tape held: later choices took their simplest value)").or_default() += 1;
                    }
                }
                Ok(())
            }
            Verdict::Excluded(why) => {
                if !st.failed {
                    st.evals += 1;
                    *st.excluded.entry(why).or_default() += 1;
                }
                Ok(())
            }
            Verdict::Fail { msg, signature } => {
                if !st.failed {
                    st.evals += 1;
                    st.failed = true;
                    st.fail_sig = signature;
                    STOP.store(true, Ordering::SeqCst);
                    *shrink_start.borrow_mut() = Some(Instant::now());
                }
                Err(TestCaseError::fail(msg))
            }
        }
    });
    let fail = match result {
        Ok(()) => None,
        Err(TestError::Fail(reason, tape)) => Some((tape, reason.message().to_string())),
        Err(TestError::Abort(reason)) => {
            // cannot happen (no rejections are used); report as harness error via panic
            panic!("proptest aborted: {}", reason.message());
        }
    };
    (stats.into_inner(), fail)
}

// ------------------------------------------------------------------------------------------------
// Exhaustive suites

#[derive(Default)]
pub struct Acc {
    pub evals: u64,
    pub nontrivial: u64,
    pub labels: BTreeMap<&'static str, u64>,
    pub samples: Vec<Value>,
    /// (outer index, case, message, signature)
    pub failure: Option<(u64, Value, String, Option<String>)>,
    outer: u64,
}

impl Acc {
    #[inline]
    pub fn count(&mut self, nontrivial: bool) {
        self.evals += 1;
        if nontrivial {
            self.nontrivial += 1;
        }
    }
    #[inline]
    pub fn count_n(&mut self, evals: u64, nontrivial: u64) {
        self.evals += evals;
        self.nontrivial += nontrivial;
    }
    pub fn label(&mut self, l: &'static str) {
        *self.labels.entry(l).or_default() += 1;
    }
    pub fn label_n(&mut self, l: &'static str, n: u64) {
        *self.labels.entry(l).or_default() += n;
    }
    pub fn sample(&mut self, f: impl FnOnce() -> Value) {
        if self.samples.len() < 2 {
            self.samples.push(f());
        }
    }
    pub fn failed(&self) -> bool {
        self.failure.is_some()
    }
    /// Record a failing case (the first one per outer index is kept).
    pub fn fail(&mut self, case: Value, msg: impl Into<String>) {
        if self.failure.is_none() {
            STOP.store(true, Ordering::SeqCst);
            self.failure = Some((self.outer, case, msg.into(), None));
        }
    }
    pub fn fail_sig(&mut self, case: Value, msg: impl Into<String>, sig: &str) {
        if self.failure.is_none() {
            STOP.store(true, Ordering::SeqCst);
            self.failure = Some((self.outer, case, msg.into(), Some(sig.to_string())));
        }
    }
}

fn pool() -> &'static rayon::ThreadPool {
    static P: std::sync::OnceLock<rayon::ThreadPool> = std::sync::OnceLock::new();
    P.get_or_init(|| rayon::ThreadPoolBuilder::new().build().expect("thread pool"))
}

/// Enumerate `outer` work items in parallel; `f(i, acc)` evaluates every inner case of item `i`.
/// The reported failure is the one with the smallest outer index (deterministic).
pub fn exhaustive_suite(
    _ctx: &Ctx,
    name: &str,
    outer: u64,
    f: &(dyn Fn(u64, &mut Acc) + Sync),
) -> SuiteReport {
    STOP.store(false, Ordering::SeqCst);
    let (lo, hi) = match only_item() {
        Some((s, i)) if s == name => (i.min(outer), (i + 1).min(outer)),
        Some(_) => (0, 0),
        None => (0, outer),
    };
    // always on pool threads (never on the calling thread), so that a single item re-run by the
    // supervisor meets the same stack size as in the full run
    let acc = pool().install(|| (lo..hi)
        .into_par_iter()
        .fold(Acc::default, |mut acc, i| {
            journal_write_item(name, i);
            if STOP.load(Ordering::Relaxed) && !acc.failed() {
                return acc;
            }
            if acc.failed() {
                return acc;
            }
            acc.outer = i;
            if let Err(p) = guard(|| f(i, &mut acc)) {
                acc.fail(
                    json!({"kind": "params", "outer": i}),
                    format!("HARNESS: panic outside the guarded calls in exhaustive item {}: {}", i, p),
                );
            }
            acc
        })
        .reduce(Acc::default, |mut a, b| {
            a.evals += b.evals;
            a.nontrivial += b.nontrivial;
            for (k, v) in b.labels {
                *a.labels.entry(k).or_default() += v;
            }
            if a.samples.len() < 4 {
                a.samples.extend(b.samples.into_iter().take(1));
            }
            a.failure = match (a.failure.take(), b.failure) {
                (Some(x), Some(y)) => Some(if x.0 <= y.0 { x } else { y }),
                (x, None) => x,
                (None, y) => y,
            };
            a
        }));
    let mut rep = SuiteReport {
        name: name.to_string(),
        evaluations: acc.evals,
        distinct_nontrivial: acc.nontrivial,
        exhaustive: acc.failure.is_none(),
        samples: acc.samples,
        ..Default::default()
    };
    for (k, v) in acc.labels {
        rep.labels.insert(k.to_string(), v);
    }
    if let Some((_, case, msg, sig)) = acc.failure {
        rep.failure = Some(Failure {
            suite: name.to_string(),
            msg,
            signature: sig,
            case,
            description: None,
        });
    }
    rep
}

/// A suite made of a single plain closure (used for small deterministic sub-suites).
pub fn simple_suite(name: &str, exhaustive: bool, f: impl FnOnce(&mut Acc)) -> SuiteReport {
    STOP.store(false, Ordering::SeqCst);
    let mut acc = Acc::default();
    match only_item() {
        Some((s, _)) if s != name => return SuiteReport { name: name.to_string(), ..Default::default() },
        _ => {}
    }
    journal_write_item(name, 0);
    if let Err(p) = guard(|| f(&mut acc)) {
        acc.fail(json!({"kind": "params"}), format!("HARNESS: panic outside the guarded calls: {}", p));
    }
    let mut rep = SuiteReport {
        name: name.to_string(),
        evaluations: acc.evals,
        distinct_nontrivial: acc.nontrivial,
        exhaustive: exhaustive && acc.failure.is_none(),
        samples: acc.samples,
        ..Default::default()
    };
    for (k, v) in acc.labels {
        rep.labels.insert(k.to_string(), v);
    }
    if let Some((_, case, msg, sig)) = acc.failure {
        rep.failure = Some(Failure {
            suite: name.to_string(),
            msg,
            signature: sig,
            case,
            description: None,
        });
    }
    rep
}

// ------------------------------------------------------------------------------------------------
// Finishing: replay files, evidence, exit code

pub struct Summary<'a> {
    pub rule: &'a str,
    pub assumptions: Vec<String>,
    /// true when *every* part of the domain stated in the property was enumerated completely
    pub exhaustive: bool,
    pub extra: Map<String, Value>,
}

pub fn write_replay(ctx: &Ctx, fl: &Failure) -> PathBuf {
    let dir = ctx.root.join("replays");
    let _ = std::fs::create_dir_all(&dir);
    let body = json!({
        "property": ctx.prop,
        "suite": fl.suite,
        "tier": ctx.tier.name(),
        "seed": ctx.seed,
        "message": fl.msg,
        "signature": fl.signature,
        "case": fl.case,
        "description": fl.description,
    });
    let text = serde_json::to_string_pretty(&body).unwrap();
    let h = fnv64(serde_json::to_string(&fl.case).unwrap().as_bytes()) ^ fnv64(fl.suite.as_bytes());
    let path = dir.join(format!("{}-{:016x}.json", ctx.prop, h));
    std::fs::write(&path, text).expect("cannot write replay file");
    path
}

/// Print verdict lines, write the evidence file and return the process exit code.
pub fn finish(ctx: &Ctx, reports: Vec<SuiteReport>, summary: Summary) -> i32 {
    let mut violations = 0;
    let mut harness_errors = 0;
    let mut known_hits = 0;
    let mut evaluations = 0u64;
    let mut distinct = 0u64;
    let mut samples: Vec<Value> = Vec::new();
    let mut suites_json = Vec::new();
    for r in &reports {
        evaluations += r.evaluations;
        distinct += r.distinct_nontrivial;
        for s in r.samples.iter().take(2) {
            if samples.len() < 8 {
                samples.push(json!({"suite": r.name, "case": s}));
            }
        }
        let mut sj = Map::new();
        sj.insert("name".into(), json!(r.name));
        sj.insert("evaluations".into(), json!(r.evaluations));
        sj.insert("distinct_nontrivial".into(), json!(r.distinct_nontrivial));
        sj.insert("exhaustive".into(), json!(r.exhaustive));
        if !r.labels.is_empty() {
            sj.insert("classes".into(), json!(r.labels));
        }
        if !r.excluded.is_empty() {
            sj.insert("excluded".into(), json!(r.excluded));
        }
        if !r.notes.is_empty() {
            sj.insert("notes".into(), json!(r.notes));
        }
        for (k, v) in &r.extra {
            sj.insert(k.clone(), v.clone());
        }
        if let Some(fl) = &r.failure {
            if fl.msg.starts_with("HARNESS") {
                // a panic that did not come out of a guarded call into the code under test is a bug
                // of the harness: inconclusive, never a verdict about the code
                harness_errors += 1;
                let path = write_replay(ctx, fl);
                println!("HARNESS-ERROR {} / {}: {} (case saved to {})", ctx.prop, r.name, fl.msg, path.display());
                sj.insert("harness_error".into(), json!(fl.msg));
                suites_json.push(Value::Object(sj));
                continue;
            }
            let is_known = fl
                .signature
                .as_ref()
                .map(|s| ctx.is_known(s))
                .unwrap_or(false);
            if is_known {
                known_hits += 1;
                println!(
                    "KNOWN-FINDING: property={} {} [{}]",
                    ctx.prop,
                    fl.signature.as_deref().unwrap_or(""),
                    fl.msg.lines().next().unwrap_or("")
                );
                sj.insert("known_finding".into(), json!(fl.signature));
            } else {
                violations += 1;
                let path = write_replay(ctx, fl);
                println!("--- {} / {}: {}", ctx.prop, r.name, fl.msg);
                if let Some(d) = &fl.description {
                    let s = serde_json::to_string(d).unwrap_or_default();
                    let s: String = s.chars().take(2000).collect();
                    println!("    case: {}", s);
                }
                println!("VIOLATION property={} replay={}", ctx.prop, path.display());
                sj.insert("violation".into(), json!(fl.msg));
            }
        }
        suites_json.push(Value::Object(sj));
    }
    if samples.is_empty() {
        samples.push(json!("no non-trivial sample recorded"));
    }
    let wall = ctx.start.elapsed().as_secs_f64();
    let mut coverage = Map::new();
    coverage.insert("evaluations".into(), json!(evaluations));
    coverage.insert("distinct_nontrivial".into(), json!(distinct));
    coverage.insert("rule".into(), json!(summary.rule));
    coverage.insert("samples".into(), json!(samples));
    coverage.insert("exhaustive".into(), json!(summary.exhaustive && violations == 0));
    coverage.insert("suites".into(), json!(suites_json));
    coverage.insert("known_findings_observed".into(), json!(known_hits));
    for (k, v) in summary.extra {
        coverage.insert(k, v);
    }
    if let Some((umv, rps)) = crate::gen_pic::optional_modes_if_probed() {
        coverage.insert(
            "optional_header_modes".into(),
            json!({"probe": "one minimal intra picture per mode on a fresh decoder", "umv_bit_in_intra_headers": if umv { "accepted by this tree: generated" } else { "rejected by this tree: not generated" }, "reference_picture_selection_mode": if rps { "accepted by this tree: generated" } else { "rejected by this tree: not generated" }}),
        );
    }
    let ev = json!({
        "property_id": ctx.prop,
        "tier": ctx.tier.name(),
        "seed": ctx.seed,
        "level": "exploration",
        "coverage": coverage,
        "assumptions": summary.assumptions,
        "wall_s": (wall * 1000.0).round() / 1000.0,
        "violations": violations,
    });
    if only_item().is_none() {
        let dir = ctx.root.join("evidence");
        let _ = std::fs::create_dir_all(&dir);
        let path = dir.join(format!("{}.json", ctx.prop));
        std::fs::write(&path, serde_json::to_string_pretty(&ev).unwrap()).expect("cannot write evidence");
    }
    println!(
        "{} {} seed={} evaluations={} distinct_nontrivial={} violations={} wall={:.1}s",
        ctx.prop,
        ctx.tier.name(),
        ctx.seed,
        evaluations,
        distinct,
        violations,
        wall
    );
    if violations > 0 {
        1
    } else if harness_errors > 0 {
        2
    } else {
        0
    }
}

/// Strategy type check helper (keeps the `Strategy` import used even if inlined away).
#[allow(dead_code)]
fn _assert_strategy<S: Strategy>(_s: &S) {}

// ------------------------------------------------------------------------------------------------
// Watchdog: confirms hangs by an isolated re-run in a fresh process

struct WatchSlot {
    start: Option<Instant>,
    tape: Vec<u32>,
    checked: bool,
}

static WATCH_ON: AtomicBool = AtomicBool::new(false);
static WATCH_SLOTS: std::sync::Mutex<Vec<WatchSlot>> = std::sync::Mutex::new(Vec::new());

thread_local! {
    static WATCH_ID: std::cell::Cell<Option<usize>> = std::cell::Cell::new(None);
}

fn watch_enter(tape: &[u32]) {
    let mut slots = WATCH_SLOTS.lock().unwrap();
    let id = WATCH_ID.with(|c| match c.get() {
        Some(i) => i,
        None => {
            slots.push(WatchSlot { start: None, tape: Vec::new(), checked: false });
            let i = slots.len() - 1;
            c.set(Some(i));
            i
        }
    });
    let sl = &mut slots[id];
    sl.start = Some(Instant::now());
    sl.tape.clear();
    sl.tape.extend_from_slice(tape);
    sl.checked = false;
}

fn watch_leave() {
    let mut slots = WATCH_SLOTS.lock().unwrap();
    if let Some(id) = WATCH_ID.with(|c| c.get()) {
        slots[id].start = None;
    }
}

pub fn stop_watchdog() {
    WATCH_ON.store(false, Ordering::SeqCst);
}

/// Incremented by every `start_watchdog`: a monitor thread of an earlier suite retires itself.
static WATCH_GEN: std::sync::atomic::AtomicU64 = std::sync::atomic::AtomicU64::new(0);

/// Start a monitor thread for the tape suite `suite`: a case running longer than `soft_s` seconds is
/// written out and re-executed alone in a fresh process with a `hard_s` limit. If that re-run does
/// not finish either, the hang is reproducible: a VIOLATION is printed and the process exits 1.
/// Otherwise the slowness was transient and the run goes on.
pub fn start_watchdog(ctx: &Ctx, suite: &str, soft_s: u64, hard_s: u64) {
    WATCH_ON.store(true, Ordering::SeqCst);
    let my_gen = WATCH_GEN.fetch_add(1, Ordering::SeqCst) + 1;
    let prop = ctx.prop.clone();
    let suite = suite.to_string();
    let tier = ctx.tier;
    let seed = ctx.seed;
    let root = ctx.root.clone();
    std::thread::spawn(move || {
        while WATCH_ON.load(Ordering::Relaxed) && WATCH_GEN.load(Ordering::SeqCst) == my_gen {
            std::thread::sleep(std::time::Duration::from_millis(500));
            if WATCH_GEN.load(Ordering::SeqCst) != my_gen {
                break;
            }
            let mut suspect: Option<Vec<u32>> = None;
            {
                let mut slots = WATCH_SLOTS.lock().unwrap();
                for sl in slots.iter_mut() {
                    if let Some(t0) = sl.start {
                        if !sl.checked && t0.elapsed().as_secs() >= soft_s {
                            sl.checked = true;
                            suspect = Some(sl.tape.clone());
                            break;
                        }
                    }
                }
            }
            let tape = match suspect {
                Some(t) => t,
                None => continue,
            };
            let ctx2 = Ctx { prop: prop.clone(), tier, seed, threads: 1, root: root.clone(), start: Instant::now(), known: Vec::new() };
            let fl = Failure {
                suite: suite.clone(),
                msg: format!("a single case ran for more than {} s (suspected hang: loops without consuming input)", soft_s),
                signature: None,
                case: json!({"kind": "tape", "tape": tape}),
                description: None,
            };
            let path = write_replay(&ctx2, &fl);
            let exe = match std::env::current_exe() {
                Ok(e) => e,
                Err(_) => continue,
            };
            let mut child = match std::process::Command::new(exe).arg("replay").arg(&path).stdout(std::process::Stdio::null()).stderr(std::process::Stdio::null()).spawn() {
                Ok(c) => c,
                Err(_) => continue,
            };
            let t0 = Instant::now();
            let mut finished = false;
            while t0.elapsed().as_secs() < hard_s {
                match child.try_wait() {
                    Ok(Some(_)) => {
                        finished = true;
                        break;
                    }
                    _ => std::thread::sleep(std::time::Duration::from_millis(200)),
                }
            }
            if !finished {
                let _ = child.kill();
                println!("--- {} / {}: a decode call does not terminate (re-run alone in a fresh process, still running after {} s)", prop, suite, hard_s);
                println!("VIOLATION property={} replay={}", prop, path.display());
                let ev = json!({
                    "property_id": prop, "tier": tier.name(), "seed": seed, "level": "exploration",
                    "coverage": {"evaluations": 1, "distinct_nontrivial": 2, "rule": "run aborted by the watchdog: reproducible hang", "samples": [{"hang_replay": path.display().to_string()}]},
                    "wall_s": 0.0, "violations": 1,
                });
                let _ = std::fs::create_dir_all(root.join("evidence"));
                let _ = std::fs::write(root.join("evidence").join(format!("{}.json", prop)), serde_json::to_string_pretty(&ev).unwrap());
                std::process::exit(1);
            } else {
                let _ = std::fs::remove_file(&path);
            }
        }
    });
}

// ------------------------------------------------------------------------------------------------
// Tapes outside a suite (seed corpora) and the coverage-guided engine (libFuzzer via cargo-fuzz)

/// `n` tapes from proptest's own generator, deterministic in `seed`.
pub fn generate_tapes(seed: u64, n: usize, tape_len: usize) -> Vec<Vec<u32>> {
    use proptest::strategy::ValueTree;
    let mut cfg = Config::default();
    cfg.rng_seed = RngSeed::Fixed(seed);
    cfg.failure_persistence = None;
    let mut runner = TestRunner::new(cfg);
    let strategy = proptest::collection::vec(proptest::num::u32::ANY, 0..=tape_len);
    (0..n).filter_map(|_| strategy.new_tree(&mut runner).ok().map(|t| t.current())).collect()
}

pub struct FuzzPlan {
    pub target: &'static str,
    pub procs: usize,
    pub runs: u64,
    pub max_len: usize,
    pub timeout_s: u64,
    pub seeds: Vec<Vec<u8>>,
}

/// Build the libFuzzer target with `cargo +nightly fuzz build`, run `procs` independent campaigns
/// (all but the last over a fresh corpus seeded with `plan.seeds`, the last from an empty corpus),
/// and replay every saved artifact strictly in-process through `replay`. A reproduced artifact is
/// a failure; an artifact that does not reproduce, or an engine that cannot be built, is noted.
pub fn fuzz_campaign(ctx: &Ctx, plan: &FuzzPlan, replay: &dyn Fn(&[u8]) -> Verdict) -> SuiteReport {
    let mut rep = SuiteReport { name: format!("libfuzzer_{}", plan.target), ..Default::default() };
    let harness = ctx.root.join("harness");
    // VERIF_FUZZ_RUNS overrides the per-process execution budget (used when rehearsing)
    let runs = std::env::var("VERIF_FUZZ_RUNS").ok().and_then(|v| v.parse::<u64>().ok()).unwrap_or(plan.runs);
    let build = std::process::Command::new("cargo")
        .args(["+nightly", "fuzz", "build", plan.target])
        .current_dir(&harness)
        .env("CARGO_NET_OFFLINE", "true")
        .output();
    match build {
        Ok(o) if o.status.success() => {}
        Ok(o) => {
            rep.notes.push(format!("coverage-guided engine unavailable: cargo fuzz build failed: {}", String::from_utf8_lossy(&o.stderr).lines().rev().take(3).collect::<Vec<_>>().join(" | ")));
            return rep;
        }
        Err(e) => {
            rep.notes.push(format!("coverage-guided engine unavailable: {}", e));
            return rep;
        }
    }
    let bin = harness.join("fuzz").join("target").join("x86_64-unknown-linux-gnu").join("release").join(plan.target);
    let work = harness.join("target").join("fuzz-work").join(format!("{}-{}-{}", plan.target, std::process::id(), ctx.seed));
    let _ = std::fs::remove_dir_all(&work);
    let mut children = Vec::new();
    for i in 0..plan.procs.max(1) {
        let corpus = work.join(format!("corpus{}", i));
        let arts = work.join(format!("artifacts{}", i));
        let _ = std::fs::create_dir_all(&corpus);
        let _ = std::fs::create_dir_all(&arts);
        let empty = i + 1 == plan.procs.max(1) && plan.procs > 1;
        if !empty {
            for (k, s) in plan.seeds.iter().enumerate() {
                if k % plan.procs.max(1) == i || plan.seeds.len() < 64 {
                    let _ = std::fs::write(corpus.join(format!("seed{:05}", k)), s);
                }
            }
        }
        let log = std::fs::File::create(work.join(format!("log{}", i))).ok();
        let mut cmd = std::process::Command::new(&bin);
        cmd.arg(&corpus)
            .arg(format!("-runs={}", runs))
            .arg(format!("-seed={}", (ctx.seed.wrapping_mul(2654435761) + i as u64) % 4_000_000_000 + 1))
            .arg(format!("-max_len={}", plan.max_len))
            .arg("-len_control=0")
            .arg(format!("-timeout={}", plan.timeout_s))
            // safety net only: a campaign that has not finished its executions after this long is
            // ended; the evidence reports the executions actually made
            .arg("-max_total_time=1200")
            .arg("-rss_limit_mb=3072")
            .arg(format!("-artifact_prefix={}/", arts.display()))
            .arg("-print_final_stats=1")
            .stdout(std::process::Stdio::null());
        match log {
            Some(f) => {
                cmd.stderr(f);
            }
            None => {
                cmd.stderr(std::process::Stdio::null());
            }
        }
        if let Ok(c) = cmd.spawn() {
            children.push((i, c, empty));
        }
    }
    let mut execs = 0u64;
    let mut corpus_units = 0u64;
    for (i, mut c, _) in children {
        let _ = c.wait();
        if let Ok(text) = std::fs::read_to_string(work.join(format!("log{}", i))) {
            for line in text.lines() {
                if let Some(v) = line.strip_prefix("stat::number_of_executed_units:") {
                    execs += v.trim().parse::<u64>().unwrap_or(0);
                }
            }
        }
        corpus_units += std::fs::read_dir(work.join(format!("corpus{}", i))).map(|d| d.count() as u64).unwrap_or(0);
        // artifacts
        let arts = work.join(format!("artifacts{}", i));
        let mut files: Vec<_> = std::fs::read_dir(&arts).map(|d| d.filter_map(|e| e.ok()).map(|e| e.path()).collect()).unwrap_or_default();
        files.sort();
        for f in files {
            let name = f.file_name().unwrap().to_string_lossy().to_string();
            let data = std::fs::read(&f).unwrap_or_default();
            if name.starts_with("timeout-") || name.starts_with("oom-") || name.starts_with("slow-unit-") {
                rep.notes.push(format!("libFuzzer saved {} ({} bytes): resource artifact, replayed below under the watchdog rules", name, data.len()));
            }
            // replay in a child process: an artifact may abort (stack overflow) as well as panic
            let fl = Failure {
                suite: rep.name.clone(),
                msg: format!("libFuzzer artifact {}", name),
                signature: None,
                case: json!({"kind": "bytes", "hex": crate::bits::hex(&data)}),
                description: None,
            };
            let path = write_replay(ctx, &fl);
            let verdict = child_replay(&path, plan.timeout_s * 2 + 30);
            let _ = replay;
            match verdict {
                ChildVerdict::Holds => {
                    let _ = std::fs::remove_file(&path);
                    rep.notes.push(format!("artifact {} did not reproduce in a fresh process (not reported as a violation)", name));
                }
                ChildVerdict::Violation(text) | ChildVerdict::Died(text) | ChildVerdict::TimedOut(text) => {
                    if rep.failure.is_none() {
                        rep.failure = Some(Failure { msg: format!("libFuzzer artifact {} reproduces in a fresh process: {}", name, text), ..fl });
                    }
                }
                ChildVerdict::Unknown(text) => rep.notes.push(format!("artifact {}: replay inconclusive ({})", name, text)),
            }
        }
    }
    rep.evaluations = execs;
    // libFuzzer keeps an input only when it reaches new coverage: the final corpus size is the
    // engine's own count of distinct, coverage-increasing inputs
    rep.distinct_nontrivial = corpus_units;
    rep.samples.push(json!({"engine": "libFuzzer (cargo-fuzz, ASan, debug assertions, overflow checks)", "target": plan.target, "processes": plan.procs, "runs_per_process": runs, "executions": execs, "final_corpus_units": corpus_units, "seeded_inputs": plan.seeds.len()}));
    rep.extra.insert("fuzz_executions".into(), json!(execs));
    rep.extra.insert("fuzz_corpus_units".into(), json!(corpus_units));
    let _ = std::fs::remove_dir_all(&work);
    rep
}

// ------------------------------------------------------------------------------------------------
// Replaying a case in a fresh process (used for fuzzer artifacts and by the crash supervisor)

pub enum ChildVerdict {
    Holds,
    /// the child printed a VIOLATION line (exit 1); payload = its first lines
    Violation(String),
    /// the child was killed by a signal / aborted
    Died(String),
    TimedOut(String),
    Unknown(String),
}

pub fn child_replay(path: &std::path::Path, timeout_s: u64) -> ChildVerdict {
    let exe = match std::env::current_exe() {
        Ok(e) => e,
        Err(e) => return ChildVerdict::Unknown(format!("no executable path: {}", e)),
    };
    let out_path = path.with_extension("out");
    let out_file = match std::fs::File::create(&out_path) {
        Ok(f) => f,
        Err(e) => return ChildVerdict::Unknown(format!("{}", e)),
    };
    let err_file = out_file.try_clone().ok();
    let mut cmd = std::process::Command::new(exe);
    cmd.arg("replay").arg(path).env_remove("VERIF_JOURNAL_DIR").stdout(out_file);
    match err_file {
        Some(f) => {
            cmd.stderr(f);
        }
        None => {
            cmd.stderr(std::process::Stdio::null());
        }
    }
    let mut child = match cmd.spawn() {
        Ok(c) => c,
        Err(e) => return ChildVerdict::Unknown(format!("cannot spawn: {}", e)),
    };
    let t0 = Instant::now();
    let status = loop {
        match child.try_wait() {
            Ok(Some(st)) => break Some(st),
            Ok(None) => {
                if t0.elapsed().as_secs() > timeout_s {
                    let _ = child.kill();
                    let _ = child.wait();
                    break None;
                }
                std::thread::sleep(std::time::Duration::from_millis(50));
            }
            Err(_) => break None,
        }
    };
    let text: String = std::fs::read_to_string(&out_path).unwrap_or_default().lines().take(6).collect::<Vec<_>>().join(" | ").chars().take(600).collect();
    let _ = std::fs::remove_file(&out_path);
    match status {
        None => ChildVerdict::TimedOut(format!("still running after {} s", timeout_s)),
        Some(st) => match st.code() {
            Some(0) => ChildVerdict::Holds,
            Some(1) => ChildVerdict::Violation(text),
            Some(2) => ChildVerdict::Unknown(text),
            Some(c) => ChildVerdict::Died(format!("process exited with status {} ({})", c, text)),
            None => ChildVerdict::Died(format!("process killed by a signal: {:?} ({})", st, text)),
        },
    }
}

/// Supervisor: run the check in a worker process; if the worker dies abnormally (abort, stack
/// overflow, kill), replay the journalled cases one by one in fresh processes to find the culprit.
pub fn supervise(prop: &str, tier: Tier, seed: u64) -> i32 {
    let ctx = Ctx::new(prop, tier, seed);
    let jdir = ctx.root.join("harness").join("target").join("journal").join(format!("{}-{}", prop, std::process::id()));
    let _ = std::fs::remove_dir_all(&jdir);
    let _ = std::fs::create_dir_all(&jdir);
    let exe = match std::env::current_exe() {
        Ok(e) => e,
        Err(_) => return crate::props::run(&ctx),
    };
    let status = std::process::Command::new(exe).arg("run-worker").arg(prop).arg("--tier").arg(tier.name()).env("VERIF_SEED", seed.to_string()).env("VERIF_JOURNAL_DIR", &jdir).status();
    let code = match status {
        Ok(st) => st.code(),
        Err(e) => {
            eprintln!("cannot start worker: {}", e);
            let _ = std::fs::remove_dir_all(&jdir);
            return 2;
        }
    };
    if let Some(c @ 0..=2) = code {
        let _ = std::fs::remove_dir_all(&jdir);
        return c;
    }
    eprintln!("{}: worker process died abnormally ({:?}); replaying the journalled cases one by one", prop, status);
    let cands = journal_read(&jdir);
    let _ = std::fs::remove_dir_all(&jdir);
    for (suite, tape) in cands {
        if let Some(item_suite) = suite.strip_prefix("item:") {
            // an item of an exhaustive suite: re-run that item alone in a fresh worker
            let i = ((tape.first().copied().unwrap_or(0) as u64) << 32) | tape.get(1).copied().unwrap_or(0) as u64;
            let exe = match std::env::current_exe() {
                Ok(e) => e,
                Err(_) => continue,
            };
            let st = std::process::Command::new(exe)
                .arg("run-worker")
                .arg(prop)
                .arg("--tier")
                .arg(tier.name())
                .env("VERIF_SEED", seed.to_string())
                .env("VERIF_ONLY_ITEM", format!("{}:{}", item_suite, i))
                .env_remove("VERIF_JOURNAL_DIR")
                .stdout(std::process::Stdio::null())
                .stderr(std::process::Stdio::null())
                .status();
            let died = match st {
                Ok(s) => !matches!(s.code(), Some(0) | Some(1) | Some(2)),
                Err(_) => false,
            };
            if died {
                let fl = Failure {
                    suite: item_suite.to_string(),
                    msg: "the process running this enumerated item died (abort, stack overflow or kill)".into(),
                    signature: None,
                    case: json!({"kind": "only_item", "suite": item_suite, "item": i}),
                    description: None,
                };
                let path = write_replay(&ctx, &fl);
                println!("--- {} / {}: enumerated item {} kills the process that runs it (not a caught panic: abort or stack overflow)", prop, item_suite, i);
                println!("VIOLATION property={} replay={}", prop, path.display());
                let ev = json!({
                    "property_id": prop, "tier": tier.name(), "seed": seed, "level": "exploration",
                    "coverage": {"evaluations": 1, "distinct_nontrivial": 2, "rule": "run ended by the death of the worker process; culprit item identified from the journal and reproduced in a fresh process", "samples": [{"replay": path.display().to_string()}]},
                    "wall_s": ctx.start.elapsed().as_secs_f64(), "violations": 1,
                });
                let _ = std::fs::create_dir_all(ctx.root.join("evidence"));
                let _ = std::fs::write(ctx.root.join("evidence").join(format!("{}.json", prop)), serde_json::to_string_pretty(&ev).unwrap());
                return 1;
            }
            continue;
        }
        let fl = Failure {
            suite: suite.clone(),
            msg: "the process running this case died (abort, stack overflow or kill)".into(),
            signature: None,
            case: json!({"kind": "tape", "tape": tape}),
            description: None,
        };
        let path = write_replay(&ctx, &fl);
        match child_replay(&path, 180) {
            ChildVerdict::Holds | ChildVerdict::Unknown(_) => {
                let _ = std::fs::remove_file(&path);
            }
            ChildVerdict::Violation(t) | ChildVerdict::Died(t) | ChildVerdict::TimedOut(t) => {
                println!("--- {} / {}: a generated case kills the process that runs it (not a caught panic: abort, stack overflow, or no termination): {}", prop, suite, t);
                println!("VIOLATION property={} replay={}", prop, path.display());
                let ev = json!({
                    "property_id": prop, "tier": tier.name(), "seed": seed, "level": "exploration",
                    "coverage": {"evaluations": 1, "distinct_nontrivial": 2, "rule": "run ended by the death of the worker process; culprit identified from the journal and reproduced in a fresh process", "samples": [{"replay": path.display().to_string()}]},
                    "wall_s": ctx.start.elapsed().as_secs_f64(), "violations": 1,
                });
                let _ = std::fs::create_dir_all(ctx.root.join("evidence"));
                let _ = std::fs::write(ctx.root.join("evidence").join(format!("{}.json", prop)), serde_json::to_string_pretty(&ev).unwrap());
                return 1;
            }
        }
    }
    eprintln!("{}: no journalled case reproduces the death of the worker: inconclusive", prop);
    2
}
