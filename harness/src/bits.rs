//! MSB-first bit writer and bit-vector helpers (the encoder side of the harness and the
//! reference model of the bit reader both sit on these).

#[derive(Clone, Debug, Default)]
pub struct BitWriter {
    pub bits: Vec<bool>,
}

impl BitWriter {
    pub fn new() -> Self {
        Self { bits: Vec::new() }
    }
    pub fn len(&self) -> usize {
        self.bits.len()
    }
    pub fn is_empty(&self) -> bool {
        self.bits.is_empty()
    }
    /// Append the `n` low bits of `v`, most significant first.
    pub fn put(&mut self, v: u64, n: u32) {
        for i in (0..n).rev() {
            self.bits.push((v >> i) & 1 == 1);
        }
    }
    pub fn put_bit(&mut self, b: bool) {
        self.bits.push(b);
    }
    /// Append a code given as a string of '0'/'1'.
    pub fn put_code(&mut self, code: &str) {
        for c in code.bytes() {
            self.bits.push(c == b'1');
        }
    }
    pub fn append(&mut self, other: &BitWriter) {
        self.bits.extend_from_slice(&other.bits);
    }
    /// Pad with zero bits to the next byte boundary; returns number of bits added.
    pub fn align_zero(&mut self) -> usize {
        let pad = (8 - self.bits.len() % 8) % 8;
        for _ in 0..pad {
            self.bits.push(false);
        }
        pad
    }
    /// Bytes, last byte zero-padded.
    pub fn to_bytes(&self) -> Vec<u8> {
        bits_to_bytes(&self.bits)
    }
}

pub fn bits_to_bytes(bits: &[bool]) -> Vec<u8> {
    let mut out = vec![0u8; (bits.len() + 7) / 8];
    for (i, b) in bits.iter().enumerate() {
        if *b {
            out[i / 8] |= 0x80 >> (i % 8);
        }
    }
    out
}

pub fn bytes_to_bits(bytes: &[u8]) -> Vec<bool> {
    let mut out = Vec::with_capacity(bytes.len() * 8);
    for b in bytes {
        for i in 0..8 {
            out.push(b & (0x80 >> i) != 0);
        }
    }
    out
}

pub fn hex(bytes: &[u8]) -> String {
    let mut s = String::with_capacity(bytes.len() * 2);
    for b in bytes {
        s.push_str(&format!("{:02x}", b));
    }
    s
}

pub fn unhex(s: &str) -> Vec<u8> {
    let s = s.as_bytes();
    let mut out = Vec::with_capacity(s.len() / 2);
    let v = |c: u8| -> u8 {
        match c {
            b'0'..=b'9' => c - b'0',
            b'a'..=b'f' => c - b'a' + 10,
            b'A'..=b'F' => c - b'A' + 10,
            _ => 0,
        }
    };
    let mut i = 0;
    while i + 1 < s.len() {
        out.push(v(s[i]) << 4 | v(s[i + 1]));
        i += 2;
    }
    out
}

/// FNV-1a 64-bit, used for distinctness keys and digests (stable across runs and platforms).
pub fn fnv64(data: &[u8]) -> u64 {
    let mut h: u64 = 0xcbf29ce484222325;
    for b in data {
        h ^= *b as u64;
        h = h.wrapping_mul(0x100000001b3);
    }
    h
}

pub fn fnv64_extend(mut h: u64, data: &[u8]) -> u64 {
    for b in data {
        h ^= *b as u64;
        h = h.wrapping_mul(0x100000001b3);
    }
    h
}
