//! vcheck: property-based testing / fuzzing harness for ruffle-rs/h263-rs.
pub mod bits;
pub mod dec;
pub mod gen;
pub mod gen_pic;
pub mod hdr;
pub mod hist;
pub mod hostile;
pub mod io;
pub mod model;
pub mod props;
pub mod runner;
pub mod syntax;
pub mod tables;
