//! Choice-tape generator.
//!
//! Every random decision of every generator in this harness is drawn from a `Vec<u32>` "tape"
//! that proptest generates (and therefore owns, shrinks and replays). The interpreter below maps
//! tape words to choices *monotonically* (smaller word -> earlier / simpler alternative) and yields
//! the simplest alternative (0) when the tape is exhausted, so proptest's generic shrinking of the
//! vector (delete elements, binary-search each element toward 0) shrinks the derived structure:
//! fewer pictures, fewer macroblocks, fewer events, smaller sizes and magnitudes.
//!
//! No other source of randomness exists in the harness; a case is a pure function of its tape.

use serde_json::Value;

pub struct Gen<'a> {
    tape: &'a [u32],
    pos: usize,
    /// Set by the driver when it wants the case to leave a human-readable description behind.
    pub want_desc: bool,
    pub desc: Option<Value>,
    /// Blocks generated earlier in the current picture, (first index, stream form, events): the
    /// picture generators sometimes repeat one of them verbatim, so that identical blocks occur
    /// more than once in a picture with other blocks in between. Part of the case, not of the tape.
    pub block_pool: Vec<(usize, bool, Vec<crate::syntax::Event>)>,
    /// The six blocks (INTRADC, events) of the macroblock generated last in the current picture,
    /// with its (first index, stream form): the next macroblock sometimes repeats the block at the
    /// same index - its neighbour in the same plane - INTRADC and all.
    pub last_mb: Option<(usize, bool, Vec<(u8, Vec<crate::syntax::Event>)>)>,
}

impl<'a> Gen<'a> {
    pub fn new(tape: &'a [u32]) -> Self {
        Gen {
            tape,
            pos: 0,
            want_desc: false,
            desc: None,
            block_pool: Vec::new(),
            last_mb: None,
        }
    }

    pub fn consumed(&self) -> usize {
        self.pos
    }

    /// The tape words in `from..to` (clipped to the tape), e.g. the words a sub-generator consumed.
    pub fn tape_slice(&self, from: usize, to: usize) -> Vec<u32> {
        let n = self.tape.len();
        self.tape[from.min(n)..to.min(n)].to_vec()
    }

    pub fn exhausted(&self) -> bool {
        self.pos >= self.tape.len()
    }

    #[inline]
    pub fn word(&mut self) -> u32 {
        let v = self.tape.get(self.pos).copied().unwrap_or(0);
        self.pos += 1;
        v
    }

    /// Uniform in 0..n (n >= 1), monotone in the tape word.
    #[inline]
    pub fn below(&mut self, n: u32) -> u32 {
        debug_assert!(n >= 1);
        ((self.word() as u64 * n as u64) >> 32) as u32
    }

    /// Uniform in lo..=hi, shrinking toward lo.
    #[inline]
    pub fn range(&mut self, lo: i64, hi: i64) -> i64 {
        debug_assert!(hi >= lo);
        let n = (hi - lo + 1) as u64;
        lo + ((self.word() as u64 * n) >> 32) as i64
    }

    /// Uniform in lo..=hi but shrinking toward `origin` (which must lie inside).
    pub fn range_around(&mut self, lo: i64, hi: i64, origin: i64) -> i64 {
        // order the values by distance from origin: origin, origin+1, origin-1, ...
        let n = (hi - lo + 1) as u64;
        let k = ((self.word() as u64 * n) >> 32) as i64;
        let up = hi - origin;
        let down = origin - lo;
        let m = up.min(down);
        if k <= 2 * m {
            if k % 2 == 1 {
                origin + (k + 1) / 2
            } else {
                origin - k / 2
            }
        } else if up > down {
            origin + (k - m)
        } else {
            origin - (k - m)
        }
    }

    #[inline]
    pub fn bool(&mut self) -> bool {
        self.word() >= 0x8000_0000
    }

    /// True with probability num/den; the simplest outcome (exhausted tape) is `false`.
    #[inline]
    pub fn chance(&mut self, num: u32, den: u32) -> bool {
        // top of the range -> true, so that word 0 -> false
        self.below(den) >= den - num
    }

    pub fn pick<'b, T>(&mut self, items: &'b [T]) -> &'b T {
        &items[self.below(items.len() as u32) as usize]
    }

    /// Index chosen with the given weights (sum >= 1); earlier alternatives are simpler.
    pub fn weighted(&mut self, weights: &[u32]) -> usize {
        let total: u32 = weights.iter().sum();
        let mut k = self.below(total);
        for (i, w) in weights.iter().enumerate() {
            if k < *w {
                return i;
            }
            k -= *w;
        }
        weights.len() - 1
    }

    pub fn byte(&mut self) -> u8 {
        (self.word() >> 24) as u8
    }

    pub fn bytes(&mut self, n: usize) -> Vec<u8> {
        (0..n).map(|_| self.byte()).collect()
    }

    pub fn describe(&mut self, f: impl FnOnce() -> Value) {
        if self.want_desc {
            self.desc = Some(f());
        }
    }
}
