//! `Read` sources used to deliver data to the bit reader in different ways.

use std::cell::RefCell;
use std::io::Read;
use std::rc::Rc;

/// Delivers at most `chunk` bytes per `read` call.
pub struct Chunked<'a> {
    pub data: &'a [u8],
    pub pos: usize,
    pub chunk: usize,
}

impl<'a> Chunked<'a> {
    pub fn new(data: &'a [u8], chunk: usize) -> Self {
        Chunked { data, pos: 0, chunk: chunk.max(1) }
    }
}

impl<'a> Read for Chunked<'a> {
    fn read(&mut self, buf: &mut [u8]) -> std::io::Result<usize> {
        let n = buf.len().min(self.chunk).min(self.data.len() - self.pos);
        buf[..n].copy_from_slice(&self.data[self.pos..self.pos + n]);
        self.pos += n;
        Ok(n)
    }
}

/// A source to which more data can be appended while a reader holds it (streaming delivery).
/// When it runs dry `read` returns 0 bytes (so `read_exact` reports end of data); after `push`
/// further reads succeed.
#[derive(Clone, Default)]
pub struct Growable {
    inner: Rc<RefCell<(Vec<u8>, usize)>>,
}

impl Growable {
    pub fn new() -> Self {
        Growable::default()
    }
    pub fn push(&self, data: &[u8]) {
        self.inner.borrow_mut().0.extend_from_slice(data);
    }
    /// bytes handed out so far
    pub fn delivered(&self) -> usize {
        self.inner.borrow().1
    }
    pub fn total(&self) -> usize {
        self.inner.borrow().0.len()
    }
}

impl Read for Growable {
    fn read(&mut self, buf: &mut [u8]) -> std::io::Result<usize> {
        let mut g = self.inner.borrow_mut();
        let (data, pos) = (&g.0, g.1);
        let n = buf.len().min(data.len() - pos);
        buf[..n].copy_from_slice(&data[pos..pos + n]);
        g.1 += n;
        Ok(n)
    }
}
