//! `Read` sources used to deliver data to the bit reader in different ways.

use std::cell::RefCell;
use std::io::Read;
use std::rc::Rc;

/// Delivers at most `chunk` bytes per `read` call.
pub struct Chunked<'a> {
    pub data: &'a [u8],
    pub pos: usize,
    pub chunk: usize,
}

impl<'a> Chunked<'a> {
    pub fn new(data: &'a [u8], chunk: usize) -> Self {
        Chunked { data, pos: 0, chunk: chunk.max(1) }
    }
}

impl<'a> Read for Chunked<'a> {
    fn read(&mut self, buf: &mut [u8]) -> std::io::Result<usize> {
        let n = buf.len().min(self.chunk).min(self.data.len() - self.pos);
        buf[..n].copy_from_slice(&self.data[self.pos..self.pos + n]);
        self.pos += n;
        Ok(n)
    }
}

/// A source to which more data can be appended while a reader holds it (streaming delivery).
/// When it runs dry `read` returns 0 bytes (so `read_exact` reports end of data); after `push`
/// further reads succeed.
#[derive(Clone, Default)]
pub struct Growable {
    inner: Rc<RefCell<(Vec<u8>, usize)>>,
}

impl Growable {
    pub fn new() -> Self {
        Growable::default()
    }
    pub fn push(&self, data: &[u8]) {
        self.inner.borrow_mut().0.extend_from_slice(data);
    }
    /// bytes handed out so far
    pub fn delivered(&self) -> usize {
        self.inner.borrow().1
    }
    pub fn total(&self) -> usize {
        self.inner.borrow().0.len()
    }
}

impl Read for Growable {
    fn read(&mut self, buf: &mut [u8]) -> std::io::Result<usize> {
        let mut g = self.inner.borrow_mut();
        let (data, pos) = (&g.0, g.1);
        let n = buf.len().min(data.len() - pos);
        buf[..n].copy_from_slice(&data[pos..pos + n]);
        g.1 += n;
        Ok(n)
    }
}

/// Delivers `data` in chunks like `Chunked`, and lets some `read` calls fail the way pipes,
/// sockets and non-blocking files do. `schedule` is consulted cyclically, one entry per call:
/// 0 or 1 deliver bytes; 2 reports `ErrorKind::Interrupted` (which `Read::read_exact` and every
/// well-behaved caller retries at once, so it must be invisible); 3 reports a transient failure
/// (`WouldBlock`, `TimedOut` or `Other`, in turn) when `transient` is set, else `Interrupted`.
/// Nothing is consumed by a failing call, and two failures are never delivered in a row.
pub struct Flaky<'a> {
    pub data: &'a [u8],
    pub pos: usize,
    pub chunk: usize,
    pub schedule: Vec<u8>,
    pub transient: bool,
    pub calls: usize,
    pub interrupted: usize,
    /// number of transient failures delivered so far (shared, so the owner of the reader can see it)
    pub transients: Rc<std::cell::Cell<usize>>,
    last_failed: bool,
}

impl<'a> Flaky<'a> {
    pub fn new(data: &'a [u8], chunk: usize, schedule: Vec<u8>, transient: bool) -> Self {
        Flaky { data, pos: 0, chunk: chunk.max(1), schedule, transient, calls: 0, interrupted: 0, transients: Rc::new(std::cell::Cell::new(0)), last_failed: false }
    }
}

impl<'a> Read for Flaky<'a> {
    fn read(&mut self, buf: &mut [u8]) -> std::io::Result<usize> {
        let action = if self.schedule.is_empty() || self.last_failed { 0 } else { self.schedule[self.calls % self.schedule.len()] & 3 };
        self.calls += 1;
        if action >= 2 && self.pos < self.data.len() {
            self.last_failed = true;
            if action == 3 && self.transient {
                self.transients.set(self.transients.get() + 1);
                let kind = [std::io::ErrorKind::WouldBlock, std::io::ErrorKind::TimedOut, std::io::ErrorKind::Other][self.transients.get() % 3];
                return Err(std::io::Error::new(kind, "transient source failure (injected)"));
            }
            self.interrupted += 1;
            return Err(std::io::Error::new(std::io::ErrorKind::Interrupted, "interrupted (injected)"));
        }
        self.last_failed = false;
        let n = buf.len().min(self.chunk).min(self.data.len() - self.pos);
        buf[..n].copy_from_slice(&self.data[self.pos..self.pos + n]);
        self.pos += n;
        Ok(n)
    }
}
