//! Generators of hostile picture data for the robustness property (C01): semantically hostile but
//! well-formed syntax, bit-level corruptions of valid pictures, and raw bytes.

use crate::bits::{bits_to_bytes, bytes_to_bits, BitWriter};
use crate::gen::Gen;
use crate::gen_pic::*;
use crate::hdr::*;
use crate::syntax::*;

/// What the generator knows about the decoder it is feeding (to aim at state-dependent paths).
#[derive(Clone, Debug)]
pub struct Aim {
    pub mode: Mode,
    pub version: u8,
    /// header of the last picture that was (probably) accepted, if any
    pub like: Option<Header>,
}

fn any_size(g: &mut Gen, mode: Mode, cfg: &PicCfg) -> Size {
    gen_size(g, mode, cfg)
}

fn valid_picture(g: &mut Gen, cfg: &PicCfg, aim: &Aim) -> Pic {
    match &aim.like {
        Some(like) if g.chance(3, 4) => {
            let t = match g.weighted(&[2, 5, 3]) {
                0 => PicType::I,
                1 => PicType::P,
                _ => {
                    if aim.mode == Mode::Sorenson {
                        PicType::D
                    } else {
                        PicType::P
                    }
                }
            };
            if t == PicType::I {
                gen_intra_pic_with(g, cfg, like.mode, like.version, like.size)
            } else {
                gen_inter_pic(g, cfg, like, t, true)
            }
        }
        _ => {
            let size = any_size(g, aim.mode, cfg);
            gen_intra_pic_with(g, cfg, aim.mode, aim.version, size)
        }
    }
}

const HOSTILE_SIZES: [(u16, u16); 14] = [
    (0, 16),
    (16, 0),
    (0, 0),
    (1, 1),
    (65535, 1),
    (1, 65535),
    (2, 2),
    (17, 1),
    (1, 17),
    (15, 15),
    (33, 33),
    (2040, 8),
    (8, 2040),
    (255, 255),
];

/// Well-formed syntax with hostile meaning. Returns bytes and a label.
pub fn semantic_corruption(g: &mut Gen, cfg: &PicCfg, aim: &Aim) -> (Vec<u8>, &'static str) {
    let mut pic = valid_picture(g, cfg, aim);
    let k = g.below(19);
    match k {
        0 => {
            // more macroblocks than the picture holds
            let extra = g.range(1, 6) as usize;
            for _ in 0..extra {
                let detailed = g.bool();
                let mb = if pic.hdr.ptype == PicType::I { gen_intra_mb(g, &pic.hdr, detailed, true) } else { gen_inter_mb(g, &pic.hdr, true) };
                pic.mbs.push(mb);
            }
            (encode_pic(&pic), "more macroblocks than the picture holds")
        }
        1 => {
            // header size rewritten after the macroblocks were produced
            let (w, h) = *g.pick(&HOSTILE_SIZES);
            if pic.hdr.mode == Mode::Sorenson {
                pic.hdr.size = if w <= 255 && h <= 255 && g.bool() { Size::Custom8(w as u8, h as u8) } else { Size::Custom16(w, h) };
            } else {
                pic.hdr.size = *g.pick(&[Size::Sqcif, Size::Qcif, Size::Cif, Size::Cif4]);
            }
            (encode_pic(&pic), "declared size rewritten (zero / tiny / huge / other)")
        }
        2 => {
            // predicted picture of another size than the reference; sometimes one with exactly the
            // same number of samples but another shape (15x4 after 5x12)
            let mut size = any_size(g, aim.mode, cfg);
            if aim.mode == Mode::Sorenson && g.chance(1, 2) {
                if let Some((w0, h0)) = aim.like.as_ref().and_then(|l| l.dims()) {
                    let area = w0 * h0;
                    let divs: Vec<usize> = (1..=area.min(65535)).filter(|d| area % d == 0 && area / d <= 65535 && *d != w0).collect();
                    if !divs.is_empty() {
                        let d = *g.pick(&divs);
                        size = Size::Custom16(d as u16, (area / d) as u16);
                    }
                }
            }
            let like = match aim.mode {
                Mode::Sorenson => Header::sorenson(aim.version, PicType::P, size, 5),
                Mode::Standard => Header::standard(PicType::P, size, 5),
            };
            let t = if aim.mode == Mode::Sorenson && g.bool() { PicType::D } else { PicType::P };
            let p = gen_inter_pic(g, cfg, &like, t, true);
            (encode_pic(&p), "predicted picture of another size than its reference")
        }
        3 => {
            pic.hdr.quant = 0;
            (encode_pic(&pic), "PQUANT 0")
        }
        4 => {
            // extreme levels at high quantizers
            pic.hdr.quant = *g.pick(&[31u8, 30, 29, 17, 16]);
            for mb in pic.mbs.iter_mut() {
                for b in mb.blocks.iter_mut() {
                    if g.chance(1, 3) {
                        let level = *g.pick(&[1023i16, -1023, -1024, 1024, -128, 127, -64, 63, 529, -529, 0, 2047, -2048]);
                        let run = g.below(64) as u8;
                        let wide = g.chance(3, 4);
                        b.events = vec![Event { run, level, force_escape: true, wide }];
                    }
                }
            }
            (encode_pic(&pic), "extreme escape levels at high quantizer")
        }
        5 => {
            // runs overflowing the 64 coefficients
            for mb in pic.mbs.iter_mut() {
                for b in mb.blocks.iter_mut() {
                    if g.chance(1, 3) {
                        let n = g.range(2, 5) as usize;
                        let mut evs = Vec::new();
                        for _ in 0..n {
                            evs.push(Event { run: g.range(20, 63) as u8, level: 1, force_escape: true, wide: false });
                        }
                        b.events = evs;
                    }
                }
            }
            (encode_pic(&pic), "runs past the 64th coefficient")
        }
        6 => {
            for mb in pic.mbs.iter_mut() {
                if mb.kind.is_intra() && g.chance(1, 2) {
                    let which = g.below(6) as usize;
                    mb.blocks[which].dc = *g.pick(&[0u8, 128, 255]);
                }
            }
            (encode_pic(&pic), "INTRADC 0 / 128 / 255")
        }
        7 => {
            if pic.hdr.mode == Mode::Sorenson {
                match g.below(3) {
                    0 => pic.hdr.ptype = PicType::SorensonReserved,
                    1 => pic.hdr.size = Size::SorensonReserved,
                    _ => pic.hdr.version = g.range(2, 31) as u8,
                }
            } else {
                pic.hdr.size = Size::Custom8(1, 1); // written as reserved source format 110
            }
            (encode_pic(&pic), "reserved type / size code / version")
        }
        8 | 9 => {
            // standard header with arbitrary PLUSPTYPE options, then plausible macroblock data
            let mut h = gen_std_header(g, true);
            if g.chance(1, 4) {
                if let Kind::Plus(p) = &mut h.kind {
                    p.rpr = g.bool();
                    p.bci = *g.pick(&[Bci::Absent, Bci::Present, Bci::Invalid]);
                    p.uui = *g.pick(&[Uui::Limited, Uui::Unlimited, Uui::Invalid]);
                    if g.chance(1, 4) {
                        p.cpfmt.phi = g.below(512) as u16;
                    }
                }
            }
            h.quant = g.below(32) as u8;
            let mut w = BitWriter::new();
            h.write(g.bool(), &Inherited { mode_bits: Some(g.below(1024)) }, &mut w);
            let inter = match &h.kind {
                Kind::Baseline(b) => b.inter,
                Kind::Plus(p) => p.ptype_code != 0,
            };
            let mbhdr = Header::standard(if inter { PicType::P } else { PicType::I }, Size::Qcif, h.quant.max(1));
            let n = g.range(0, 30) as usize;
            for _ in 0..n {
                let detailed = g.chance(1, 3);
                let mb = if inter { gen_inter_mb(g, &mbhdr, detailed) } else { gen_intra_mb(g, &mbhdr, detailed, true) };
                encode_mb(&mb, &mbhdr, &mut w);
            }
            let extra = g.range(0, 12) as usize;
            let mut bytes = w.to_bytes();
            bytes.extend(g.bytes(extra));
            (bytes, "standard header with arbitrary PTYPE/PLUSPTYPE options (UMV, PB, AP, MQ, ...) + macroblock data")
        }
        10 => {
            // GOB start codes in the middle of a standard-mode picture (resynchronisation path)
            let mut w = BitWriter::new();
            encode_header(&pic.hdr, &mut w);
            let at = g.range(0, pic.mbs.len() as i64) as usize;
            for (i, mb) in pic.mbs.iter().enumerate() {
                if i == at || g.chance(1, 30) {
                    if g.bool() {
                        w.align_zero();
                    }
                    w.put(1, 17);
                    w.put(g.below(32) as u64, 5); // GN
                    w.put(g.below(4) as u64, 2); // GFID
                    w.put(g.below(32) as u64, 5); // GQUANT
                }
                encode_mb(mb, &pic.hdr, &mut w);
            }
            (w.to_bytes(), "GOB / start codes in the middle of a picture")
        }
        11 => {
            for mb in pic.mbs.iter_mut() {
                if g.chance(1, 4) {
                    mb.stuffing = g.range(1, 40) as u8;
                }
            }
            (encode_pic(&pic), "long MCBPC stuffing runs")
        }
        12 => {
            // fewer macroblocks, then trailing zero bits / garbage
            let keep = g.range(0, pic.mbs.len() as i64) as usize;
            pic.mbs.truncate(keep);
            pic.trailing_zero_bits = g.below(32) as u8;
            let mut b = encode_pic(&pic);
            if g.bool() {
                b.extend(g.bytes(3));
            }
            (b, "fewer macroblocks, trailing zeros / garbage")
        }
        13 => {
            // inter macroblock types inside an I picture header and vice versa (type rewrite)
            pic.hdr.ptype = match pic.hdr.ptype {
                PicType::I => PicType::P,
                _ => PicType::I,
            };
            let mut w = BitWriter::new();
            encode_header(&pic.hdr, &mut w);
            let other = Header { ptype: if pic.hdr.ptype == PicType::I { PicType::P } else { PicType::I }, ..pic.hdr.clone() };
            for mb in &pic.mbs {
                encode_mb(mb, &other, &mut w);
            }
            (w.to_bytes(), "picture type rewritten after the macroblocks were produced")
        }
        17 => {
            // a very long uninterrupted run of MCBPC stuffing codewords (constant-bit-rate padding):
            // thousands to hundreds of thousands, then the picture's macroblocks
            if !g.chance(1, 5) {
                return (encode_pic(&pic), "valid picture (control)");
            }
            let n = if g.chance(1, 10) { 150_000usize } else { *g.pick(&[3_000usize, 20_000, 45_000, 70_000]) };
            let mut w = BitWriter::new();
            encode_header(&pic.hdr, &mut w);
            let inter = pic.hdr.ptype != PicType::I;
            let mut one = BitWriter::new();
            if inter {
                one.put_bit(false);
            }
            one.put_code("000000001");
            w.bits.reserve(n * one.len());
            for _ in 0..n {
                w.bits.extend_from_slice(&one.bits);
            }
            for mb in &pic.mbs {
                encode_mb(mb, &pic.hdr, &mut w);
            }
            (w.to_bytes(), "very long run of MCBPC stuffing codewords")
        }
        15 | 16 => {
            // Annex D: PLUSPTYPE picture with unrestricted motion vectors, every macroblock INTER
            // with Table D.3 differentials of extreme magnitude (they accumulate through the
            // predictors along a macroblock row)
            let like = aim.like.clone().unwrap_or_else(|| Header::standard(PicType::I, Size::Qcif, 5));
            let (fmt, cp) = match like.size {
                Size::Sqcif => (1, None),
                Size::Qcif => (2, None),
                Size::Cif => (3, None),
                Size::Cif4 => (4, None),
                Size::Cif16 => (5, None),
                sz => (6, sz.dims()),
            };
            // half of the time a wide custom format of its own (the vector range of Annex D depends
            // on the size class, and long rows let the predictors run far), whatever came before
            let own = g.chance(1, 2);
            let (fmt, cp) = if own {
                let w = *g.pick(&[176usize, 352, 356, 704, 708, 1408, 1412, 1760, 1764, 1900, 2048]);
                let h = *g.pick(&[4usize, 16, 32, 292, 580]);
                (6, Some((w, h)))
            } else {
                (fmt, cp)
            };
            let mut p = base_plus();
            p.opp = Opp::from_mode_bits(fmt, false, 1 << 9);
            if let Some((cw, ch)) = cp {
                p.cpfmt = Cpfmt { par: 2, pwi: ((cw / 4).max(1) - 1).min(511) as u16, marker: true, phi: (ch / 4).clamp(1, 288) as u16, epar: (1, 1) };
            }
            p.uui = if g.bool() { Uui::Unlimited } else { Uui::Limited };
            p.ptype_code = 1;
            let mut h = base_header(Kind::Plus(p));
            h.tr = g.byte();
            h.quant = g.range(1, 31) as u8;
            let mut w = BitWriter::new();
            h.write(false, &Inherited::default(), &mut w);
            let n = match (own, cp, like.mb_dims()) {
                (true, Some((cw, ch)), _) => (((cw + 15) / 16) * ((ch + 15) / 16)).min(400),
                (_, _, Some((a, b))) => (a * b).min(400),
                _ => 20,
            };
            let style = g.below(6);
            let run = g.range(6, 12) as usize;
            let run_sign = if g.bool() { 1 } else { -1 };
            for i in 0..n {
                w.put_bit(false); // COD
                w.put_code("1"); // MCBPC: INTER, no chroma
                w.put_code("11"); // CBPY (inter sense): no luma
                for _comp in 0..2 {
                    if style == 4 && g.chance(1, 3) {
                        // a code of the Table D.3 *form* that is longer than any valid one: 10 to 20
                        // (bit, continue) pairs - all zero, all one or mixed - then a terminator
                        let pairs = g.range(10, 20) as usize;
                        let fill = g.below(3);
                        w.put_bit(false);
                        for _ in 0..pairs {
                            w.put_bit(match fill {
                                0 => false,
                                1 => true,
                                _ => g.bool(),
                            });
                            w.put_bit(true);
                        }
                        w.put_bit(g.bool());
                        w.put_bit(false);
                        continue;
                    }
                    let v: i32 = match style {
                        // a run of extreme differences of one sign, then small ones of the other
                        5 => {
                            if i < run {
                                4095 * run_sign
                            } else {
                                -run_sign * *g.pick(&[1i32, 1, 2, 0, 3])
                            }
                        }
                        0 => 4095,
                        1 => -4095,
                        2 => {
                            if i % 2 == 0 {
                                4095
                            } else {
                                -4094
                            }
                        }
                        _ => g.range_around(-4095, 4095, 0) as i32,
                    };
                    put_umv(&mut w, v);
                }
            }
            (w.to_bytes(), "unrestricted motion vectors of extreme magnitude (Table D.3)")
        }
        14 => {
            // far-pointing vectors everywhere
            for mb in pic.mbs.iter_mut() {
                for v in mb.mvd.iter_mut() {
                    *v = (*g.pick(&[-32i8, 31, -31, 30]), *g.pick(&[-32i8, 31, -31, 30]));
                }
            }
            (encode_pic(&pic), "differentials at the range limits everywhere")
        }
        _ => (encode_pic(&pic), "valid picture (control)"),
    }
}

/// Table D.3 code of an unrestricted motion vector difference (half-sample units, |v| <= 4095).
pub fn put_umv(w: &mut BitWriter, v: i32) {
    if v == 0 {
        w.put_bit(true);
        return;
    }
    w.put_bit(false);
    let a = v.unsigned_abs();
    let k = 31 - a.leading_zeros(); // number of bits below the leading one
    for i in (0..k).rev() {
        w.put_bit((a >> i) & 1 == 1);
        w.put_bit(true);
    }
    w.put_bit(v < 0);
    w.put_bit(false);
}

/// Bit-level corruption of a valid or semantically corrupted picture.
pub fn bit_corruption(g: &mut Gen, cfg: &PicCfg, aim: &Aim) -> (Vec<u8>, &'static str) {
    let base = if g.chance(1, 4) { semantic_corruption(g, cfg, aim).0 } else { encode_pic(&valid_picture(g, cfg, aim)) };
    if base.is_empty() {
        return (base, "empty");
    }
    match g.below(6) {
        0 => {
            let mut b = base;
            let n = g.range(1, 8);
            for _ in 0..n {
                let pos = g.below((b.len() * 8) as u32) as usize;
                b[pos / 8] ^= 0x80 >> (pos % 8);
            }
            (b, "bit flips")
        }
        1 => {
            let mut bits = bytes_to_bits(&base);
            let pos = g.below(bits.len() as u32) as usize;
            bits.insert(pos, g.bool());
            (bits_to_bytes(&bits), "bit inserted (everything behind shifts)")
        }
        2 => {
            let mut bits = bytes_to_bits(&base);
            let pos = g.below(bits.len() as u32) as usize;
            bits.remove(pos);
            (bits_to_bytes(&bits), "bit deleted (everything behind shifts)")
        }
        3 => {
            let mut b = base;
            let keep = g.below(b.len() as u32 + 1) as usize;
            b.truncate(keep);
            (b, "truncated at a byte boundary")
        }
        4 => {
            let other = encode_pic(&valid_picture(g, cfg, aim));
            let a = g.below(base.len() as u32 + 1) as usize;
            let c = g.below(other.len() as u32 + 1) as usize;
            let mut b = base[..a].to_vec();
            b.extend_from_slice(&other[c..]);
            (b, "splice of two pictures")
        }
        _ => {
            let mut b = base;
            let n = g.range(1, 24) as usize;
            b.extend(g.bytes(n));
            (b, "trailing garbage")
        }
    }
}

pub fn raw_bytes(g: &mut Gen, cfg: &PicCfg, aim: &Aim) -> (Vec<u8>, &'static str) {
    match g.below(5) {
        0 => {
            let n = g.range(0, 64) as usize;
            (g.bytes(n), "random bytes")
        }
        1 => {
            // random bytes behind a valid header
            let size = any_size(g, aim.mode, cfg);
            let t = *g.pick(&[PicType::I, PicType::P, PicType::D]);
            let t = if aim.mode == Mode::Standard && t == PicType::D { PicType::P } else { t };
            let use_like = g.bool();
            let sz = aim.like.as_ref().map(|l| l.size).filter(|_| use_like).unwrap_or(size);
            let h = gen_header(g, aim.mode, aim.version, sz, t);
            let mut w = BitWriter::new();
            encode_header(&h, &mut w);
            let mut b = w.to_bytes();
            let n = g.range(0, 200) as usize;
            b.extend(g.bytes(n));
            (b, "random bytes behind a valid header")
        }
        2 => (vec![0u8; g.range(0, 300) as usize], "all zero"),
        3 => (vec![0xFFu8; g.range(0, 300) as usize], "all one"),
        _ => {
            // start code followed by random bytes
            let mut b = vec![0u8, 0, 0x80 | (g.byte() & 0x7F)];
            let n = g.range(0, 80) as usize;
            b.extend(g.bytes(n));
            (b, "start code then random bytes")
        }
    }
}

/// One piece of picture data from the whole mix; proportions are measured by the caller.
pub fn any_data(g: &mut Gen, cfg: &PicCfg, aim: &Aim) -> (Vec<u8>, &'static str, Option<Header>) {
    match g.weighted(&[5, 5, 4, 2]) {
        0 => {
            let p = valid_picture(g, cfg, aim);
            (encode_pic(&p), "valid picture", Some(p.hdr))
        }
        1 => {
            let (b, l) = semantic_corruption(g, cfg, aim);
            (b, l, None)
        }
        2 => {
            let (b, l) = bit_corruption(g, cfg, aim);
            (b, l, None)
        }
        _ => {
            let (b, l) = raw_bytes(g, cfg, aim);
            (b, l, None)
        }
    }
}
