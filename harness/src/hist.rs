//! History building blocks shared by the state-level properties: rejected ("bad") pictures of
//! every robust kind, temporal-reference schemes.

use crate::bits::BitWriter;
use crate::gen::Gen;
use crate::gen_pic::*;
use crate::syntax::*;

#[derive(Clone, Copy, Debug, PartialEq, Eq)]
pub enum BadKind {
    NoStartCode,
    ReservedType,
    ReservedSize,
    InvalidIntraDc,
    TruncatedInBlock,
    InvalidMcbpc,
    InvalidShortCode,
    EscapeLevelZero,
    InvalidMvd,
    HeaderTruncated,
    BadPtypeMarker,
    /// standard: PLUSPTYPE header announcing Modified Quantization (Annex T): fails at the first macroblock
    UnimplementedMq,
    /// standard: MPPTYPE reference-picture-resampling bit: fails while parsing the header
    UnimplementedRpr,
    /// standard: PB-frame / B / EI / EP picture type: fails at the first coded macroblock
    UnimplementedPictureType,
    /// an intra picture of ANOTHER size than the current reference whose data ends between two
    /// macroblocks: the rest would have to be predicted from a reference of another size (or from
    /// none)
    TruncatedIntraOtherSize,
}

pub const BAD_KINDS_SORENSON: [BadKind; 11] = [
    BadKind::TruncatedIntraOtherSize,
    BadKind::NoStartCode,
    BadKind::ReservedType,
    BadKind::ReservedSize,
    BadKind::InvalidIntraDc,
    BadKind::TruncatedInBlock,
    BadKind::InvalidMcbpc,
    BadKind::InvalidShortCode,
    BadKind::EscapeLevelZero,
    BadKind::InvalidMvd,
    BadKind::HeaderTruncated,
];
pub const BAD_KINDS_STANDARD: [BadKind; 12] = [
    BadKind::UnimplementedMq,
    BadKind::UnimplementedRpr,
    BadKind::UnimplementedPictureType,
    BadKind::TruncatedIntraOtherSize,
    BadKind::NoStartCode,
    BadKind::InvalidIntraDc,
    BadKind::TruncatedInBlock,
    BadKind::InvalidShortCode,
    BadKind::EscapeLevelZero,
    BadKind::InvalidMvd,
    BadKind::HeaderTruncated,
    BadKind::BadPtypeMarker,
];

impl BadKind {
    pub fn label(self) -> &'static str {
        match self {
            BadKind::NoStartCode => "bad: no start code",
            BadKind::ReservedType => "bad: reserved picture type",
            BadKind::ReservedSize => "bad: reserved size code",
            BadKind::InvalidIntraDc => "bad: invalid INTRADC",
            BadKind::TruncatedInBlock => "bad: truncated inside a block",
            BadKind::InvalidMcbpc => "bad: invalid MCBPC",
            BadKind::InvalidShortCode => "bad: invalid short TCOEF code",
            BadKind::EscapeLevelZero => "bad: escape level 0",
            BadKind::InvalidMvd => "bad: invalid MVD code",
            BadKind::HeaderTruncated => "bad: truncated in header",
            BadKind::BadPtypeMarker => "bad: PTYPE marker bits",
            BadKind::UnimplementedMq => "bad: unimplemented mode (modified quantization)",
            BadKind::UnimplementedRpr => "bad: unimplemented mode (reference picture resampling)",
            BadKind::UnimplementedPictureType => "bad: unimplemented picture type (PB / B / EI / EP)",
            BadKind::TruncatedIntraOtherSize => "bad: intra picture of another size cut between macroblocks",
        }
    }
    /// depth at which the decoder must fail
    pub fn depth(self) -> &'static str {
        match self {
            BadKind::NoStartCode | BadKind::HeaderTruncated | BadKind::BadPtypeMarker | BadKind::UnimplementedRpr => "header",
            BadKind::TruncatedIntraOtherSize => "prediction",
            BadKind::UnimplementedMq | BadKind::UnimplementedPictureType => "macroblock header",
            BadKind::ReservedType | BadKind::ReservedSize => "picture setup",
            BadKind::InvalidMcbpc | BadKind::InvalidMvd => "macroblock header",
            _ => "block data",
        }
    }
}

/// Build a picture that must be rejected. `like` gives mode/size; `inter` selects a P picture
/// (when a reference exists) or an I picture as the carrier; `good_mbs` valid macroblocks precede
/// the failing one ("failing at every depth").
/// A size different from `size` that the same mode can signal.
fn other_size(g: &mut Gen, mode: Mode, size: Size) -> Size {
    for _ in 0..4 {
        let s = match mode {
            Mode::Sorenson => Size::Custom8(g.range(1, 80) as u8, g.range(1, 80) as u8),
            Mode::Standard => *g.pick(&[Size::Sqcif, Size::Qcif, Size::StdCustom(32, 32), Size::StdCustom(48, 16), Size::StdCustom(20, 36)]),
        };
        if s.dims() != size.dims() {
            return s;
        }
    }
    match mode {
        Mode::Sorenson => {
            if size.dims() == Some((24, 40)) {
                Size::Custom8(40, 24)
            } else {
                Size::Custom8(24, 40)
            }
        }
        Mode::Standard => {
            if size.dims() == Some((128, 96)) {
                Size::Qcif
            } else {
                Size::Sqcif
            }
        }
    }
}

/// Standard-mode PLUSPTYPE / PTYPE header (hdr.rs form) for a picture of `like`'s size.
fn std_header_like(like: &Header, tr: u8, quant: u8) -> crate::hdr::StdHeader {
    use crate::hdr::*;
    let mut p = base_plus();
    let (fmt, cp) = match like.size {
        Size::Sqcif => (1, None),
        Size::Qcif => (2, None),
        Size::Cif => (3, None),
        Size::Cif4 => (4, None),
        Size::Cif16 => (5, None),
        s => (6, s.dims()),
    };
    p.opp = Opp::from_mode_bits(fmt, false, 0);
    if let Some((w, h)) = cp {
        p.cpfmt = Cpfmt { par: 2, pwi: ((w / 4).max(1) - 1) as u16, marker: true, phi: (h / 4).max(1) as u16, epar: (1, 1) };
    }
    let mut h = base_header(Kind::Plus(p));
    h.tr = tr;
    h.quant = quant.clamp(1, 31);
    h
}

pub fn bad_picture(g: &mut Gen, cfg: &PicCfg, like: &Header, kind: BadKind, inter: bool, tr: u8) -> Vec<u8> {
    // carrier picture type: I, or (when a reference exists) P or, in Sorenson mode, disposable P
    let ptype = if inter {
        if like.mode == Mode::Sorenson && g.chance(1, 3) {
            PicType::D
        } else {
            PicType::P
        }
    } else {
        PicType::I
    };
    match kind {
        BadKind::UnimplementedMq | BadKind::UnimplementedRpr | BadKind::UnimplementedPictureType => {
            use crate::hdr::*;
            let mut h = std_header_like(like, tr, gen_quant(g));
            let mut mb_inter = inter;
            if let Kind::Plus(p) = &mut h.kind {
                p.ptype_code = if inter { 1 } else { 0 };
                match kind {
                    BadKind::UnimplementedMq => p.opp.mq = true,
                    BadKind::UnimplementedRpr => p.rpr = true,
                    _ => {
                        // improved PB, B, EI, EP: all use the inter-picture macroblock syntax (COD bit)
                        p.ptype_code = *g.pick(&[2u8, 3, 4, 5]);
                        mb_inter = true;
                    }
                }
            }
            if kind == BadKind::UnimplementedPictureType && g.chance(1, 3) {
                // baseline PTYPE with the PB-frames bit
                let mut b = base_baseline();
                b.fmt = match like.size {
                    Size::Sqcif => 1,
                    Size::Qcif => 2,
                    Size::Cif => 3,
                    Size::Cif4 => 4,
                    Size::Cif16 => 5,
                    _ => 2,
                };
                b.inter = true;
                b.pb = true;
                h.kind = Kind::Baseline(b);
                mb_inter = true;
            }
            let mut w = BitWriter::new();
            h.write(false, &Inherited::default(), &mut w);
            // the first macroblock is coded (a not-coded one would be accepted by any inter syntax)
            let mbh = Header::standard(if mb_inter { PicType::P } else { PicType::I }, like.size, h.quant);
            let n = g.range(1, 4);
            for _ in 0..n {
                let mb = gen_intra_mb(g, &mbh, false, false);
                encode_mb(&mb, &mbh, &mut w);
            }
            return w.to_bytes();
        }
        BadKind::TruncatedIntraOtherSize => {
            let size = other_size(g, like.mode, like.size);
            let mut pic = gen_intra_pic_with(g, cfg, like.mode, like.version, size);
            pic.hdr.tr = tr;
            let total = pic.mbs.len();
            // keep m < total complete macroblocks; the data ends right there
            let m = g.range(0, total as i64 - 1) as usize;
            pic.mbs.truncate(m);
            for mb in pic.mbs.iter_mut() {
                mb.stuffing = 0;
            }
            return encode_pic(&pic);
        }
        _ => {}
    }
    let mut hdr = gen_header(g, like.mode, like.version, like.size, ptype);
    if ptype != PicType::I {
        follow(&mut hdr, like);
    }
    hdr.tr = tr;
    let total = hdr.mb_dims().map(|(a, b)| a * b).unwrap_or(1).max(1);
    let good = if g.chance(1, 2) { 0 } else { g.range(0, (total as i64 - 1).min(12)) as usize };
    let mut w = BitWriter::new();
    match kind {
        BadKind::NoStartCode => {
            // 17 bits that are not a start code, then the rest of a header
            let mut body = BitWriter::new();
            encode_header(&hdr, &mut body);
            let junk = (g.word() | 0x8000_0000) >> 15; // top bit set: cannot be 16 zeros + 1
            w.put(junk as u64, 17);
            w.bits.extend_from_slice(&body.bits[17..]);
            return w.to_bytes();
        }
        BadKind::HeaderTruncated => {
            encode_header(&hdr, &mut w);
            let keep = g.range(0, (w.len() as i64 - 1) / 8) as usize; // whole bytes, fewer than the header has
            let mut b = w.to_bytes();
            b.truncate(keep);
            return b;
        }
        BadKind::BadPtypeMarker => {
            encode_header(&hdr, &mut w);
            // standard PTYPE bits 1-2 sit right after PSC(22) + TR(8): must be "10"
            let v = g.below(3); // 00, 01, 11
            let (b1, b2) = [(false, false), (false, true), (true, true)][v as usize];
            w.bits[30] = b1;
            w.bits[31] = b2;
            return w.to_bytes();
        }
        BadKind::ReservedType => hdr.ptype = PicType::SorensonReserved,
        BadKind::ReservedSize => hdr.size = Size::SorensonReserved,
        _ => {}
    }
    encode_header(&hdr, &mut w);
    // good macroblocks first (not for the setup-level failures, which need none)
    let carrier_inter = inter;
    let enc_hdr = Header { ptype, ..hdr.clone() };
    if !matches!(kind, BadKind::ReservedType | BadKind::ReservedSize) {
        for _ in 0..good {
            let mb = if carrier_inter { gen_inter_mb(g, &enc_hdr, false) } else { gen_intra_mb(g, &enc_hdr, false, true) };
            encode_mb(&mb, &enc_hdr, &mut w);
        }
    }
    let mut failing = Mb::new(MbKind::Intra);
    for b in 0..6 {
        failing.blocks[b].dc = 100 + b as u8;
    }
    match kind {
        BadKind::ReservedType | BadKind::ReservedSize => {
            let mb = gen_intra_mb(g, &enc_hdr, false, false);
            encode_mb(&mb, &Header { ptype: PicType::I, ..enc_hdr.clone() }, &mut w);
        }
        BadKind::InvalidIntraDc => {
            let which = g.below(6) as usize;
            failing.blocks[which].dc = if g.bool() { 0 } else { 128 };
            encode_mb(&failing, &enc_hdr, &mut w);
        }
        BadKind::TruncatedInBlock => {
            // block `which` ends in an escape event (>= 22 bits) and is the last thing written;
            // the data is cut at a byte boundary strictly inside that event
            let which = g.below(6) as usize;
            failing.blocks[which].events = vec![Event { run: 3, level: 37, force_escape: true, wide: false }];
            encode_mb_header(&failing, &enc_hdr, &mut w);
            for b in 0..=which {
                encode_block(&failing.blocks[b], true, &enc_hdr, &mut w);
            }
            let cut = ((w.len() - 1) / 8) * 8;
            w.bits.truncate(cut);
            return w.to_bytes();
        }
        BadKind::InvalidMcbpc => {
            if carrier_inter {
                w.put_bit(false); // COD = 0
            }
            w.put(0, 13); // thirteen zero bits: no MCBPC code, no stuffing code
            w.put(0xFFFF, 16);
        }
        BadKind::InvalidShortCode => {
            // block 0 is flagged as coded but its first TCOEF is nine zero bits (neither a code nor ESC)
            failing.blocks[0].events = vec![Event { run: 0, level: 1, force_escape: false, wide: false }];
            encode_mb_header(&failing, &enc_hdr, &mut w);
            w.put(failing.blocks[0].dc as u64, 8);
            w.put(0, 12);
            w.put(0xFFFF, 16);
        }
        BadKind::EscapeLevelZero => {
            failing.blocks[2].events = vec![Event { run: 1, level: 0, force_escape: true, wide: false }];
            encode_mb(&failing, &enc_hdr, &mut w);
        }
        BadKind::InvalidMvd => {
            if carrier_inter {
                w.put_bit(false);
                w.put_code("1"); // MCBPC: INTER, no chroma
                w.put_code("11"); // CBPY: no luma coded (inter sense)
                w.put(0, 13); // MVD x: thirteen zeros is not a code
                w.put(0xFFFF, 16);
            } else {
                // intra carrier has no MVD: fall back to an invalid INTRADC
                failing.blocks[0].dc = 0;
                encode_mb(&failing, &enc_hdr, &mut w);
            }
        }
        _ => {}
    }
    w.to_bytes()
}

#[derive(Clone, Copy, Debug, PartialEq, Eq)]
pub enum TrScheme {
    Random,
    Constant,
    EqualToReference,
    EqualToLast,
    Wrapping,
}

pub fn gen_tr_scheme(g: &mut Gen) -> TrScheme {
    *g.pick(&[TrScheme::Random, TrScheme::Constant, TrScheme::EqualToReference, TrScheme::EqualToLast, TrScheme::Wrapping])
}

impl TrScheme {
    pub fn label(self) -> &'static str {
        match self {
            TrScheme::Random => "TR random",
            TrScheme::Constant => "TR constant",
            TrScheme::EqualToReference => "TR equal to reference's",
            TrScheme::EqualToLast => "TR equal to last picture's",
            TrScheme::Wrapping => "TR wrapping 254,255,0,1",
        }
    }
    pub fn next(self, g: &mut Gen, step: usize, base: u8, reference_tr: Option<u8>, last_tr: Option<u8>) -> u8 {
        match self {
            TrScheme::Random => g.byte(),
            TrScheme::Constant => base,
            TrScheme::EqualToReference => reference_tr.unwrap_or(base),
            TrScheme::EqualToLast => last_tr.unwrap_or(base),
            TrScheme::Wrapping => 254u8.wrapping_add(step as u8),
        }
    }
}
