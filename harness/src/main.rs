use serde_json::Value;
use vcheck::props;
use vcheck::runner::*;

fn usage() -> ! {
    eprintln!("usage: vcheck run <Cxx> [--tier quick|thorough] | vcheck replay <file> | vcheck list");
    std::process::exit(2);
}

fn main() {
    install_panic_hook();
    let args: Vec<String> = std::env::args().collect();
    if args.len() < 2 {
        usage();
    }
    match args[1].as_str() {
        "list" => {
            for p in props::ALL {
                println!("{}", p);
            }
        }
        "run" | "run-worker" => {
            if args.len() < 3 {
                usage();
            }
            let prop = args[2].clone();
            let mut tier = match std::env::var("VERIF_TIER").as_deref() {
                Ok("thorough") => Tier::Thorough,
                _ => Tier::Quick,
            };
            let mut i = 3;
            while i < args.len() {
                if args[i] == "--tier" && i + 1 < args.len() {
                    tier = if args[i + 1] == "thorough" { Tier::Thorough } else { Tier::Quick };
                    i += 1;
                } else if args[i] == "quick" {
                    tier = Tier::Quick;
                } else if args[i] == "thorough" {
                    tier = Tier::Thorough;
                }
                i += 1;
            }
            let seed = std::env::var("VERIF_SEED").ok().and_then(|s| s.trim().parse::<u64>().ok()).unwrap_or(1);
            if args[1] == "run" && std::env::var("VERIF_NO_SUPERVISOR").is_err() {
                std::process::exit(supervise(&prop, tier, seed));
            }
            let ctx = Ctx::new(&prop, tier, seed);
            let code = props::run(&ctx);
            std::process::exit(code);
        }
        "c17-cold" => {
            if args.len() < 4 {
                usage();
            }
            std::process::exit(props::c17::cold_main(&args[2], args[3].parse().unwrap_or(8)));
        }
        "c17-child" => {
            if args.len() < 3 {
                usage();
            }
            std::process::exit(props::c17::child_main(&args[2]));
        }
        "replay" => {
            if args.len() < 3 {
                usage();
            }
            let text = std::fs::read_to_string(&args[2]).unwrap_or_else(|e| {
                eprintln!("cannot read {}: {}", args[2], e);
                std::process::exit(2)
            });
            let v: Value = serde_json::from_str(&text).unwrap_or_else(|e| {
                eprintln!("bad replay file: {}", e);
                std::process::exit(2)
            });
            let (prop, suite, case) = props::prepare_case(&v);
            // run the case on a thread of the default size, like the worker threads of a full run
            let (p2, s2, c2) = (prop.clone(), suite.clone(), case.clone());
            let verdict = std::thread::spawn(move || {
                install_panic_hook();
                props::replay_case(&p2, &s2, &c2)
            })
            .join()
            .unwrap_or(None);
            match verdict {
                Some(Verdict::Fail { msg, .. }) => {
                    println!("{}", msg);
                    println!("VIOLATION property={} replay={}", prop, args[2]);
                    std::process::exit(1);
                }
                Some(_) => {
                    println!("replay of {} ({} / {}): property holds on this case", args[2], prop, suite);
                    std::process::exit(0);
                }
                None => {
                    eprintln!("cannot replay: unknown property/suite {} / {}", prop, suite);
                    std::process::exit(2);
                }
            }
        }
        _ => usage(),
    }
}
