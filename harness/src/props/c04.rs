//! C04 - the reference picture is always the last non-disposable decoded picture.

use super::common::*;
use crate::bits::fnv64;
use crate::dec::*;
use crate::gen::Gen;
use crate::gen_pic::*;
use crate::hist::*;
use crate::model::recon::*;
use crate::runner::*;
use crate::syntax::*;
use h263_rs::H263State;
use serde_json::{json, Map, Value};

#[derive(Clone)]
struct Slot {
    planes: Planes,
    tr: u8,
    ptype: PicType,
}

fn type_name(t: PicType) -> &'static str {
    match t {
        PicType::I => "IFrame",
        PicType::P => "PFrame",
        PicType::D => "DisposablePFrame",
        PicType::SorensonReserved => "Reserved(3)",
    }
}

/// `get_last_picture()` must be exactly the model's most recent picture.
fn check_last(st: &H263State, last: &Option<Slot>, step: usize, what: &str) -> Result<(), String> {
    let lp = last_picture(st);
    match (lp, last) {
        (None, None) => Ok(()),
        (Some(_), None) => Err(format!("step {} ({}): decoder reports a most-recent picture although none has been accepted", step, what)),
        (None, Some(_)) => Err(format!("step {} ({}): decoder reports no most-recent picture although one was accepted", step, what)),
        (Some(lp), Some(m)) => {
            if lp.tr != m.tr as u16 || lp.ptype != type_name(m.ptype) {
                return Err(format!(
                    "step {} ({}): most-recent picture is TR {} {}, the last successfully decoded one is TR {} {}",
                    step, what, lp.tr, lp.ptype, m.tr, type_name(m.ptype)
                ));
            }
            if lp.planes != m.planes {
                return Err(format!(
                    "step {} ({}): pixels of the most-recent picture (TR {} {}) are not those of the last successfully decoded picture",
                    step, what, lp.tr, lp.ptype
                ));
            }
            Ok(())
        }
    }
}

pub fn history_case(g: &mut Gen, cfg: &PicCfg, max_len: usize) -> Verdict {
    let (mode, version) = gen_mode(g, cfg);
    let size = gen_size(g, mode, cfg);
    // `like` always describes the size of the current reference picture (predicted pictures must
    // have its dimensions); it changes when a non-disposable picture of another size is accepted
    let mut like = match mode {
        Mode::Sorenson => Header::sorenson(version, PicType::I, size, 5),
        Mode::Standard => Header::standard(PicType::I, size, 5),
    };
    let scheme = gen_tr_scheme(g);
    let base_tr = g.byte();
    let scal = g.bool();
    let mut st = H263State::new(options_scal(mode, scal));
    let mut last: Option<Slot> = None;
    let mut reference: Option<Slot> = None;
    let n = g.range(2, max_len as i64) as usize;
    let mut labels: Labels = vec![mode_label(&like), scheme.label()];
    let mut key = 0u64;
    let mut trace: Vec<Value> = Vec::new();
    let mut d_seen = false; // a disposable picture is the most recent one
    let mut d_then_p_distinguishing = 0u32;
    let mut kinds_seen = String::new();

    for step in 0..n {
        // choose the step kind; the first picture is usually intra so that histories get going
        // 0 I, 1 P, 2 D, 3 rejected, 4 clean-up, 5 all-intra P of another size, 6 all-intra D of another size
        let k = if step == 0 && !g.chance(1, 8) {
            0
        } else if mode == Mode::Sorenson {
            g.weighted(&[4, 10, 10, 4, 2, 1, 2])
        } else {
            [0usize, 1, 3, 4, 5][g.weighted(&[4, 12, 4, 2, 1])]
        };
        let tr = scheme.next(g, step, base_tr, reference.as_ref().map(|s| s.tr), last.as_ref().map(|s| s.tr));
        match k {
            // ---- I picture
            0 | 5 | 6 => {
                // an intra picture, or a P / D picture made of intra macroblocks only; the latter
                // two (and sometimes the former) of another size than the current reference
                let ptype = match k {
                    0 => PicType::I,
                    5 => PicType::P,
                    _ => PicType::D,
                };
                kinds_seen.push(match k {
                    0 => 'I',
                    5 => 'P',
                    _ => 'D',
                });
                let this_size = if k != 0 || g.chance(1, 5) { gen_size(g, mode, cfg) } else { like.size };
                let mut pic = gen_intra_pic_with(g, cfg, mode, version, this_size);
                pic.hdr.ptype = ptype;
                if ptype != PicType::I && pic.hdr.plus == PlusForm::Baseline && matches!(this_size, Size::StdCustom(..)) {
                    pic.hdr.plus = PlusForm::Full;
                }
                if this_size.dims() != like.size.dims() {
                    labels.push(if ptype == PicType::D { "disposable picture of another size" } else { "size change" });
                }
                pic.hdr.tr = tr;
                let bytes = encode_pic(&pic);
                key = key.rotate_left(9) ^ fnv64(&bytes);
                if g.want_desc {
                    trace.push(json!({"step": step, "kind": format!("{:?} (intra macroblocks) {:?}", ptype, this_size), "tr": tr, "hex": crate::bits::hex(&bytes[..bytes.len().min(600)])}));
                }
                match decode_bytes(&mut st, &bytes) {
                    Outcome::Ok => {}
                    o => return fail_with(g, trace, format!("step {}: valid {:?} picture of intra macroblocks ({:?}, TR {}) not decoded: {}", step, ptype, this_size, tr, o.short())),
                }
                let model = match reconstruct(&pic, None) {
                    Ok(m) => m,
                    Err(e) => panic!("HARNESS: invalid generated I picture: {}", e),
                };
                let c = match compare_last(&st, &model.expect) {
                    Ok(c) => c,
                    Err(m) => return fail_with(g, trace, format!("step {} ({:?}, TR {}): {}", step, ptype, tr, m)),
                };
                let slot = Slot { planes: c.decoded, tr, ptype };
                last = Some(slot.clone());
                if ptype != PicType::D {
                    reference = Some(slot);
                    // later predicted pictures follow this one: size, and the modes a header
                    // that restates nothing inherits
                    like = pic.hdr.clone();
                    d_seen = false;
                } else {
                    d_seen = true;
                }
            }
            // ---- P or D picture
            1 | 2 => {
                let ptype = if k == 1 { PicType::P } else { PicType::D };
                kinds_seen.push(if k == 1 { 'P' } else { 'D' });
                let mut pic = gen_inter_pic(g, cfg, &like, ptype, true);
                pic.hdr.tr = tr;
                if last.is_none() && pic.hdr.plus == PlusForm::Brief {
                    // a header that does not restate its format needs an earlier picture to take it from
                    pic.hdr.plus = PlusForm::Full;
                }
                let bytes = encode_pic(&pic);
                key = key.rotate_left(9) ^ fnv64(&bytes);
                if g.want_desc {
                    trace.push(json!({"step": step, "kind": format!("{:?}", ptype), "tr": tr, "macroblocks": pic.mbs.len(), "hex": crate::bits::hex(&bytes[..bytes.len().min(600)])}));
                }
                let total = pic.hdr.mb_dims().map(|(a, b)| a * b).unwrap_or(0);
                let needs_pred = pic.mbs.len() < total || pic.mbs.iter().any(|m| !m.kind.is_intra());
                let out = decode_bytes(&mut st, &bytes);
                match (&reference, needs_pred) {
                    (None, true) => {
                        // nothing to predict from: must be rejected, nothing may change
                        match out {
                            Outcome::Err(_) => {
                                labels.push("P/D without reference rejected");
                            }
                            o => return fail_with(g, trace, format!("step {}: {:?} picture needing prediction decoded with no reference: {}", step, ptype, o.short())),
                        }
                    }
                    _ => {
                        match out {
                            Outcome::Ok => {}
                            o => return fail_with(g, trace, format!("step {}: valid {:?} picture (TR {}) not decoded: {}", step, ptype, tr, o.short())),
                        }
                        let flat = Planes::flat(1, 1, 0);
                        let refp = reference.as_ref().map(|s| &s.planes).unwrap_or(&flat);
                        let model = match reconstruct(&pic, if reference.is_some() { Some(refp) } else { None }) {
                            Ok(m) => m,
                            Err(e) => panic!("HARNESS: invalid generated inter picture: {}", e),
                        };
                        // would predicting from the most recent picture instead give something else?
                        let mut distinguishing = false;
                        if let (Some(l), Some(r)) = (&last, &reference) {
                            if l.planes != r.planes {
                                if let Ok(alt) = reconstruct(&pic, Some(&l.planes)) {
                                    distinguishing = alt.expect.y != model.expect.y || alt.expect.cb != model.expect.cb || alt.expect.cr != model.expect.cr;
                                }
                            }
                        }
                        let c = match compare_last(&st, &model.expect) {
                            Ok(c) => c,
                            Err(m) => {
                                return fail_with(
                                    g,
                                    trace,
                                    format!(
                                        "step {} ({:?}, TR {}; history {}): picture is not the prediction from the last non-disposable picture (TR {:?}) plus residual: {}",
                                        step, ptype, tr, kinds_seen, reference.as_ref().map(|s| s.tr), m
                                    ),
                                )
                            }
                        };
                        if d_seen && distinguishing {
                            d_then_p_distinguishing += 1;
                        }
                        let slot = Slot { planes: c.decoded, tr, ptype };
                        last = Some(slot.clone());
                        if ptype == PicType::P {
                            reference = Some(slot);
                            d_seen = false;
                        } else {
                            d_seen = true;
                        }
                    }
                }
            }
            // ---- rejected picture
            3 => {
                kinds_seen.push('B');
                let kinds: &[BadKind] = if mode == Mode::Sorenson { &BAD_KINDS_SORENSON } else { &BAD_KINDS_STANDARD };
                let kind = *g.pick(kinds);
                let inter = reference.is_some() && g.bool();
                let bytes = bad_picture(g, cfg, &like, kind, inter, tr);
                key = key.rotate_left(9) ^ fnv64(&bytes) ^ 0xBAD;
                if g.want_desc {
                    trace.push(json!({"step": step, "kind": kind.label(), "tr": tr, "hex": crate::bits::hex(&bytes[..bytes.len().min(600)])}));
                }
                match decode_bytes(&mut st, &bytes) {
                    Outcome::Err(_) => {}
                    o => return fail_with(g, trace, format!("step {}: picture that must be rejected ({}) gave {}", step, kind.label(), o.short())),
                }
                labels.push("has rejected picture");
            }
            // ---- clean-up
            _ => {
                kinds_seen.push('C');
                if g.want_desc {
                    trace.push(json!({"step": step, "kind": "cleanup"}));
                }
                if let Err(p) = guard(|| st.cleanup_buffers()) {
                    return fail_with(g, trace, format!("step {}: cleanup_buffers panicked: {}", step, p));
                }
                labels.push("has clean-up call");
            }
        }
        if let Err(m) = check_last(&st, &last, step, &kinds_seen) {
            return fail_with(g, trace, m);
        }
    }
    if g.want_desc {
        let t = trace.clone();
        g.describe(|| json!({"mode": mode_label(&like), "size": format!("{:?}", size), "tr_scheme": scheme.label(), "steps": t}));
    }
    if kinds_seen.contains('D') {
        labels.push("has disposable picture");
    }
    if kinds_seen.contains("DD") {
        labels.push("D-D");
    }
    if kinds_seen.contains("DBP") || kinds_seen.contains("DBD") {
        labels.push("D-Bad-P/D");
    }
    if kinds_seen.contains("DCP") || kinds_seen.contains("DCD") {
        labels.push("D-Cleanup-P/D");
    }
    if d_then_p_distinguishing > 0 {
        labels.push("P/D after D distinguishes reference from most recent");
    }
    labels.sort();
    labels.dedup();
    Verdict::pass_l(d_then_p_distinguishing > 0, key, labels)
}

fn fail_with(g: &mut Gen, trace: Vec<Value>, msg: String) -> Verdict {
    g.describe(|| json!({"steps": trace}));
    Verdict::fail(msg)
}

fn flat_pic(ptype: PicType, tr: u8, dc: Option<u8>) -> Vec<u8> {
    // 16x16 Sorenson picture: one intra macroblock with every INTRADC = dc, or one not-coded macroblock
    let mut hdr = Header::sorenson(0, ptype, Size::Custom8(16, 16), 4);
    hdr.tr = tr;
    let mb = match dc {
        Some(v) => {
            let mut m = Mb::new(MbKind::Intra);
            for b in 0..6 {
                m.blocks[b].dc = v;
            }
            m
        }
        None => Mb::not_coded(),
    };
    encode_pic(&Pic { hdr, mbs: vec![mb], trailing_zero_bits: 0 })
}

fn flat_is(st: &H263State, v: u8, tr: u8, ty: &str) -> Result<(), String> {
    let lp = last_picture(st).ok_or("no most-recent picture")?;
    if lp.tr != tr as u16 || lp.ptype != ty {
        return Err(format!("most-recent picture is TR {} {}, expected TR {} {}", lp.tr, lp.ptype, tr, ty));
    }
    if lp.planes.y.iter().any(|s| *s != v) || lp.planes.cb.iter().any(|s| *s != v) || lp.planes.cr.iter().any(|s| *s != v) {
        return Err(format!("most-recent picture (TR {} {}) has first luma sample {}, expected a flat {}", tr, ty, lp.planes.y[0], v));
    }
    Ok(())
}

/// item = temporal reference of the reference picture; inner = every temporal reference of the
/// disposable picture: I(a) D(b) [clean-up] P(not coded) must give a copy of the I picture.
fn tr_pair_item(i: u64, acc: &mut Acc) {
    let tr_ref = i as u8;
    for tr_d in 0..=255u8 {
        let mut st = H263State::new(options(Mode::Sorenson, tr_d % 2 == 1));
        let run = |st: &mut H263State| -> Result<(), String> {
            let ok = |o: Outcome, what: &str| -> Result<(), String> {
                if o.is_ok() {
                    Ok(())
                } else {
                    Err(format!("{} not decoded: {}", what, o.short()))
                }
            };
            ok(decode_bytes(st, &flat_pic(PicType::I, tr_ref, Some(100))), "I picture")?;
            flat_is(st, 100, tr_ref, "IFrame")?;
            ok(decode_bytes(st, &flat_pic(PicType::D, tr_d, Some(200))), "disposable picture")?;
            flat_is(st, 200, tr_d, "DisposablePFrame")?;
            if tr_d % 3 == 0 {
                st.cleanup_buffers();
            }
            ok(decode_bytes(st, &flat_pic(PicType::P, tr_d.wrapping_add(1), None)), "P picture")?;
            flat_is(st, 100, tr_d.wrapping_add(1), "PFrame").map_err(|m| format!("P after disposable picture must copy the reference (flat 100): {}", m))?;
            ok(decode_bytes(st, &flat_pic(PicType::D, tr_ref, None)), "second disposable picture")?;
            flat_is(st, 100, tr_ref, "DisposablePFrame")
        };
        acc.count(true);
        if let Err(m) = guard(|| run(&mut st)).unwrap_or_else(|p| Err(format!("panic: {}", p))) {
            acc.fail(json!({"kind":"params","tr_ref":tr_ref,"tr_d":tr_d}), format!("reference TR {}, disposable TR {}: {}", tr_ref, tr_d, m));
            return;
        }
    }
    if i == 255 {
        acc.sample(|| json!({"history": "I(TR a, flat 100)  D(TR b, flat 200)  [clean-up]  P(TR b+1, not coded)  D(TR a, not coded)", "a": tr_ref, "b": "0..=255"}));
    }
}

/// A reference picture followed by a very long run of disposable pictures (more than 2^16), with
/// clean-up calls in between; the reference must survive, and the P picture after the run must copy it.
fn long_run_item(i: u64, n: usize, acc: &mut Acc) {
    let mut st = H263State::new(options(Mode::Sorenson, i % 2 == 1));
    let first_tr = (i as u8).wrapping_mul(77);
    let mut run = || -> Result<(), String> {
        if !decode_bytes(&mut st, &flat_pic(if i % 2 == 0 { PicType::I } else { PicType::I }, first_tr, Some(100))).is_ok() {
            return Err("I picture not decoded".into());
        }
        if i % 3 == 1 {
            // make the reference a P picture
            if !decode_bytes(&mut st, &flat_pic(PicType::P, first_tr.wrapping_add(1), None)).is_ok() {
                return Err("P picture not decoded".into());
            }
        }
        for k in 0..n {
            let tr = (k as u8).wrapping_add(first_tr).wrapping_add(2);
            // mostly intra pictures whose value is never the reference's (so that a disposable picture
            // that takes the reference's place shows in everything predicted afterwards); every
            // fifth one (phase depending on the run) is a not-coded copy of the reference
            let (bytes, want) = if (k + i as usize) % 5 != 4 {
                let v = 150 + ((k * 7 + i as usize) % 90) as u8;
                (flat_pic(PicType::D, tr, Some(v)), v)
            } else {
                (flat_pic(PicType::D, tr, None), 100u8)
            };
            let o = decode_bytes(&mut st, &bytes);
            if !o.is_ok() {
                return Err(format!("disposable picture #{} not decoded: {}", k + 1, o.short()));
            }
            if k % 997 == 0 || k + 300 > 65536 && k < 65536 + 300 {
                flat_is(&st, want, tr, "DisposablePFrame").map_err(|m| format!("after disposable picture #{}: {}", k + 1, m))?;
            }
            if k % 1000 == 999 {
                st.cleanup_buffers();
            }
        }
        let o = decode_bytes(&mut st, &flat_pic(PicType::P, 9, None));
        if !o.is_ok() {
            return Err(format!("P picture after {} disposable pictures not decoded: {}", n, o.short()));
        }
        flat_is(&st, 100, 9, "PFrame").map_err(|m| format!("P picture after {} disposable pictures must copy the reference: {}", n, m))
    };
    acc.count_n(n as u64 + 2, 2);
    match guard(|| run()) {
        Ok(Ok(())) => {}
        Ok(Err(m)) => acc.fail(json!({"kind":"params","long_run":i,"n":n}), m),
        Err(p) => acc.fail(json!({"kind":"params","long_run":i,"n":n}), format!("panic: {}", p)),
    }
    if i == 0 {
        acc.sample(|| json!({"history": format!("I, {} disposable pictures (alternating intra / not coded, clean-up every 1000), P not coded", n)}));
    }
}

pub fn cfg_for(tier: Tier) -> PicCfg {
    match tier {
        Tier::Quick => PicCfg {
            max_dim: 64,
            max_fixed_mbs: 48,
            budget: 700,
            extreme_aspect: false,
            ..PicCfg::quick()
        },
        Tier::Thorough => PicCfg {
            max_dim: 96,
            max_fixed_mbs: 99,
            budget: 600,
            extreme_aspect: false,
            ..PicCfg::thorough()
        },
    }
}

pub fn run(ctx: &Ctx) -> i32 {
    let cfg = cfg_for(ctx.tier);
    let mut reports = vec![super::regression_suite(ctx)];
    let (cases, len) = ctx.tier.pick((60_000u64, 12usize), (800_000u64, 40usize));
    reports.push(exhaustive_suite(ctx, "all_temporal_reference_pairs", 256, &tr_pair_item));
    let (runs, n) = ctx.tier.pick((3u64, 66_000usize), (12u64, 140_000usize));
    reports.push(exhaustive_suite(ctx, "long_disposable_runs", runs, &move |i, acc| long_run_item(i, n, acc)));
    reports.push(tape_suite(ctx, "reference_histories", cases, 12_000, &move |g| history_case(g, &cfg, len)));
    finish(
        ctx,
        reports,
        Summary {
            rule: "Stateful histories over {I, P, disposable P, rejected picture, clean-up} (length 2..12 quick / 2..40 thorough) in Sorenson mode and, without disposable pictures, standard mode; temporal references random / constant / equal to the reference's / equal to the last picture's / wrapping. Model: two slots (most recent, reference) updated per the property; after every step get_last_picture() (pixels, TR, type) must equal the model's most recent picture and every accepted P/D must equal MC(model reference)+residual (C03 model). Non-trivial = a disposable picture followed by a P/D picture whose prediction from the most recent picture would differ from its prediction from the reference (computed by the model); distinct by the bytes of the whole history.",
            assumptions: vec!["pixels recorded for an accepted picture are the decoder's own output, each verified against the model when it was decoded".into()],
            exhaustive: false,
            extra: Map::new(),
        },
    )
}

pub fn replay(suite: &str, case: &Value) -> Option<Verdict> {
    let from_acc = |acc: Acc| match acc.failure {
        Some((_, _, m, _)) => Verdict::fail(m),
        None => Verdict::pass(true, 0),
    };
    match suite {
        "all_temporal_reference_pairs" => {
            let mut acc = Acc::default();
            tr_pair_item(case["tr_ref"].as_u64()?, &mut acc);
            Some(from_acc(acc))
        }
        "long_disposable_runs" => {
            let mut acc = Acc::default();
            long_run_item(case["long_run"].as_u64()?, case["n"].as_u64()? as usize, &mut acc);
            Some(from_acc(acc))
        }
        "reference_histories" => {
            let tape = super::tape_of(case)?;
            let tier = if case["tier"].as_str() == Some("thorough") { Tier::Thorough } else { Tier::Quick };
            Some(history_case(&mut Gen::new(&tape), &cfg_for(tier), if tier == Tier::Thorough { 40 } else { 12 }))
        }
        _ => None,
    }
}
