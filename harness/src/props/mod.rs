//! One module per property. Each exposes `run(ctx) -> i32` (exit code) and
//! `replay(suite, case) -> Option<Verdict>`.

use crate::runner::*;
use serde_json::{json, Value};

pub mod common;
pub mod c01;
pub mod c02;
pub mod c03;
pub mod c04;
pub mod c05;
pub mod c06;
pub mod c07;
pub mod c08;
pub mod c09;
pub mod c10;
pub mod c11;
pub mod c12;
pub mod c13;
pub mod c14;
pub mod c15;
pub mod c16;
pub mod c17;

pub const ALL: &[&str] = &["C01", "C02", "C03", "C04", "C05", "C06", "C07", "C08", "C09", "C10", "C11", "C12", "C13", "C14", "C15", "C16", "C17"];

pub fn run(ctx: &Ctx) -> i32 {
    match ctx.prop.as_str() {
        "C01" => c01::run(ctx),
        "C02" => c02::run(ctx),
        "C03" => c03::run(ctx),
        "C04" => c04::run(ctx),
        "C05" => c05::run(ctx),
        "C06" => c06::run(ctx),
        "C07" => c07::run(ctx),
        "C08" => c08::run(ctx),
        "C09" => c09::run(ctx),
        "C10" => c10::run(ctx),
        "C11" => c11::run(ctx),
        "C12" => c12::run(ctx),
        "C13" => c13::run(ctx),
        "C14" => c14::run(ctx),
        "C15" => c15::run(ctx),
        "C16" => c16::run(ctx),
        "C17" => c17::run(ctx),
        other => {
            eprintln!("unknown property {}", other);
            2
        }
    }
}

pub fn replay_case(prop: &str, suite: &str, case: &Value) -> Option<Verdict> {
    if case["kind"] == "only_item" {
        // re-run one item of an exhaustive suite in this process (it may kill it: that is the finding)
        std::env::set_var("VERIF_ONLY_ITEM", format!("{}:{}", case["suite"].as_str()?, case["item"].as_u64()?));
        let tier = if case["tier"].as_str() == Some("thorough") { Tier::Thorough } else { Tier::Quick };
        let ctx = Ctx::new(prop, tier, case["seed"].as_u64().unwrap_or(1));
        let code = run(&ctx);
        return Some(if code == 1 { Verdict::fail("the item fails (see the lines above)") } else { Verdict::pass(true, 0) });
    }
    match prop {
        "C01" => c01::replay(suite, case),
        "C02" => c02::replay(suite, case),
        "C03" => c03::replay(suite, case),
        "C04" => c04::replay(suite, case),
        "C05" => c05::replay(suite, case),
        "C06" => c06::replay(suite, case),
        "C07" => c07::replay(suite, case),
        "C08" => c08::replay(suite, case),
        "C09" => c09::replay(suite, case),
        "C10" => c10::replay(suite, case),
        "C11" => c11::replay(suite, case),
        "C12" => c12::replay(suite, case),
        "C13" => c13::replay(suite, case),
        "C14" => c14::replay(suite, case),
        "C15" => c15::replay(suite, case),
        "C16" => c16::replay(suite, case),
        "C17" => c17::replay(suite, case),
        _ => None,
    }
}

/// Deterministic content function (splitmix64 stream keyed by the case parameters and VERIF_SEED).
/// Used only to fill planes in *enumerated* grids, where the case is identified by its parameters;
/// randomised suites draw their content from the proptest tape instead.
pub fn content_bytes(key: u64, n: usize) -> Vec<u8> {
    let mut s = key;
    let mut out = Vec::with_capacity(n + 8);
    while out.len() < n {
        s = s.wrapping_add(0x9E3779B97F4A7C15);
        let mut z = s;
        z = (z ^ (z >> 30)).wrapping_mul(0xBF58476D1CE4E5B9);
        z = (z ^ (z >> 27)).wrapping_mul(0x94D049BB133111EB);
        z ^= z >> 31;
        out.extend_from_slice(&z.to_le_bytes());
    }
    out.truncate(n);
    out
}

pub fn tape_of(case: &Value) -> Option<Vec<u32>> {
    if case["kind"] != "tape" {
        return None;
    }
    Some(
        case["tape"]
            .as_array()?
            .iter()
            .map(|v| v.as_u64().unwrap_or(0) as u32)
            .collect(),
    )
}

/// Split a replay / regression file into (property, suite, case); tier and seed recorded at the
/// top level are injected into the case so that tier- or seed-dependent suites replay exactly.
pub fn prepare_case(v: &Value) -> (String, String, Value) {
    let prop = v["property"].as_str().unwrap_or("").to_string();
    let suite = v["suite"].as_str().unwrap_or("").to_string();
    let mut case = v["case"].clone();
    if let Some(o) = case.as_object_mut() {
        if !o.contains_key("tier") {
            o.insert("tier".into(), v["tier"].clone());
        }
        if !o.contains_key("seed") {
            o.insert("seed".into(), v["seed"].clone());
        }
    }
    (prop, suite, case)
}

/// Replay every file under regressions/<prop>/ through the property's replay function. A
/// regression that fails again is reported under its original suite name, so the replay file
/// written for it is itself replayable.
pub fn regression_suite(ctx: &Ctx) -> SuiteReport {
    let dir = ctx.root.join("regressions").join(&ctx.prop);
    let mut files: Vec<_> = std::fs::read_dir(&dir)
        .map(|rd| rd.filter_map(|e| e.ok()).map(|e| e.path()).collect())
        .unwrap_or_default();
    files.sort();
    let mut rep = SuiteReport {
        name: "regressions".into(),
        ..Default::default()
    };
    for p in files {
        if p.extension().and_then(|e| e.to_str()) != Some("json") {
            continue;
        }
        let v: Value = match std::fs::read_to_string(&p).ok().and_then(|t| serde_json::from_str(&t).ok()) {
            Some(v) => v,
            None => continue,
        };
        let (_, suite, case) = prepare_case(&v);
        let verdict = guard(|| replay_case(&ctx.prop, &suite, &case));
        match verdict {
            Ok(Some(Verdict::Fail { msg, signature })) => {
                if rep.failure.is_none() {
                    rep.failure = Some(Failure {
                        suite: suite.clone(),
                        msg: format!("regression {} fails again: {}", p.display(), msg),
                        signature,
                        case,
                        description: v.get("description").cloned(),
                    });
                }
                rep.evaluations += 1;
            }
            Ok(Some(_)) => {
                rep.evaluations += 1;
                rep.distinct_nontrivial += 1;
                if rep.samples.len() < 2 {
                    rep.samples.push(json!({"regression": p.file_name().unwrap().to_string_lossy(), "suite": suite}));
                }
            }
            Ok(None) => {
                *rep.labels.entry("unreplayable".into()).or_default() += 1;
            }
            Err(pn) => {
                if rep.failure.is_none() {
                    rep.failure = Some(Failure {
                        suite: suite.clone(),
                        msg: format!("regression {} panicked in the harness: {}", p.display(), pn),
                        signature: None,
                        case,
                        description: None,
                    });
                }
            }
        }
    }
    rep
}
