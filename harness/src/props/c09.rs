//! C09 - deblocking equals the Annex J edge filter at every block edge, wherever it lies.

use crate::bits::fnv64;
use crate::gen::Gen;
use crate::model::deblock::*;
use crate::runner::*;
use h263_rs_deblock::deblock::deblock;
use serde_json::{json, Map, Value};

pub const SITES: [&str; 4] = [
    "horizontal edge, vector lanes (w=8)",
    "horizontal edge, scalar remainder columns (w=7)",
    "vertical edge, vector row groups (h=8)",
    "vertical edge, scalar remainder rows (h=7)",
];

const FILL: u8 = 77;

/// Lay `patterns` out at one of the four kernel sites so that nothing but the edge under test is
/// filterable, run the implementation once, and compare every pattern with `expect`.
/// Returns the first mismatch as (pattern index, got, want) or a panic / shape message.
fn run_site(site: usize, strength: u8, patterns: &[[u8; 4]], expect: &[[u8; 4]]) -> Result<(), String> {
    let n = patterns.len();
    let per_edge = match site {
        0 | 2 => 8,
        _ => 7,
    };
    let edges = (n + per_edge - 1) / per_edge;
    let (w, h) = match site {
        0 => (8, 8 * (edges + 1)),
        1 => (7, 8 * (edges + 1)),
        2 => (8 * edges + 2, 8),
        _ => (8 * edges + 2, 7),
    };
    let mut img = vec![FILL; w * h];
    // position of sample k (0..4) of pattern p
    let at = |p: usize, k: usize| -> usize {
        let e = p / per_edge;
        let lane = p % per_edge;
        match site {
            0 | 1 => lane + (8 * (e + 1) - 2 + k) * w,
            _ => (8 * (e + 1) - 2 + k) + lane * w,
        }
    };
    for (p, pat) in patterns.iter().enumerate() {
        for k in 0..4 {
            img[at(p, k)] = pat[k];
        }
    }
    // (the image sits at byte offset 0..7 of a larger buffer, varying with the call)
    let off = (n + site * 3 + strength as usize) % 8;
    let mut buf = vec![0x3Cu8; off];
    buf.extend_from_slice(&img);
    let view = &buf[off..];
    let out = guard(|| deblock(view, w, strength)).map_err(|e| format!("deblock({}x{}, strength {}) panicked: {}", w, h, strength, e))?;
    if out.len() != img.len() {
        return Err(format!("output length {} != input length {}", out.len(), img.len()));
    }
    let mut touched = vec![false; w * h];
    for p in 0..n {
        let got = [out[at(p, 0)], out[at(p, 1)], out[at(p, 2)], out[at(p, 3)]];
        for k in 0..4 {
            touched[at(p, k)] = true;
        }
        if got != expect[p] {
            return Err(format!(
                "site [{}], strength {}: (A,B,C,D)={:?} filtered to {:?}, Annex J gives {:?}",
                SITES[site], strength, patterns[p], got, expect[p]
            ));
        }
    }
    // unused pattern slots hold FILL,FILL,FILL,FILL (a flat edge: unchanged); everything else must be untouched
    for i in 0..w * h {
        if !touched[i] && out[i] != FILL {
            return Err(format!(
                "site [{}], strength {}: sample at ({},{}) of a {}x{} image changed from {} to {} although it is not within two samples of a filterable edge",
                SITES[site], strength, i % w, i / w, w, h, FILL, out[i]
            ));
        }
    }
    Ok(())
}

fn expect_of(patterns: &[[u8; 4]], s: u8) -> Vec<[u8; 4]> {
    patterns
        .iter()
        .map(|p| {
            let (a, b, c, d) = filter4(p[0], p[1], p[2], p[3], s);
            [a, b, c, d]
        })
        .collect()
}

const LATTICE: [u8; 28] = [
    0, 1, 2, 3, 4, 7, 8, 15, 16, 31, 32, 63, 64, 100, 127, 128, 129, 150, 191, 192, 200, 223, 224, 240, 250, 253, 254, 255,
];

fn nontrivial_count(patterns: &[[u8; 4]], expect: &[[u8; 4]]) -> u64 {
    patterns.iter().zip(expect.iter()).filter(|(p, e)| p != e).count() as u64
}

fn lattice_item(i: u64, acc: &mut Acc) {
    let a = LATTICE[(i / 28) as usize];
    let b = LATTICE[(i % 28) as usize];
    let mut pats = Vec::with_capacity(28 * 28);
    for c in LATTICE {
        for d in LATTICE {
            pats.push([a, b, c, d]);
        }
    }
    for s in 1..=12u8 {
        let exp = expect_of(&pats, s);
        let nt = nontrivial_count(&pats, &exp);
        for site in 0..4 {
            if let Err(m) = run_site(site, s, &pats, &exp) {
                acc.fail(json!({"kind":"params","a":a,"b":b,"strength":s,"site":site,"lattice":true}), m);
                return;
            }
            acc.count_n(pats.len() as u64, nt);
        }
    }
    if a == 100 && b == 150 {
        acc.sample(|| json!({"A": a, "B": b, "C,D": "28x28 lattice values", "strengths": "1..=12", "sites": SITES}));
    }
}

/// Strength-aware boundary sweep. The filter's behaviour changes where d = (A-4B+4C-D)/8 crosses
/// 0, +-strength and +-2*strength (the up-down ramp) and where B + d1 / C - d1 leave 0..255; a
/// value lattice that ignores the strength seldom lands on those. Item = (strength, B); for C at
/// strength-dependent distances from B and A from a small set, D is *solved* so that d hits every
/// boundary value (with every truncation remainder 0..7); likewise A solved for fixed D. Patterns
/// sharing (A,B,C) - or (B,C,D) - fill whole groups of eight lanes, so that a whole vector of
/// lanes sits on the same boundary at once.
fn ramp_item(i: u64, acc: &mut Acc) {
    const BS: [i32; 9] = [0, 1, 12, 64, 127, 128, 200, 254, 255];
    let s = (i / 9 + 1) as i32;
    let b = BS[(i % 9) as usize];
    let mut deltas: Vec<i32> = vec![0, 1, 2, 3, s, 2 * s, 4 * s, 8 * s, 4 * s + 62, 4 * s + 63, 4 * s + 64, 4 * s + 65, 2 * s - 1, 2 * s + 1, 255];
    let neg: Vec<i32> = deltas.iter().map(|d| -d).collect();
    deltas.extend(neg);
    let mut targets: Vec<i32> = vec![0, 1, 2, s - 1, s, s + 1, 2 * s - 2, 2 * s - 1, 2 * s, 2 * s + 1, 159];
    let negt: Vec<i32> = targets.iter().map(|d| -d).collect();
    targets.extend(negt);
    targets.sort();
    targets.dedup();
    let mut pats: Vec<[u8; 4]> = Vec::new();
    for dl in deltas.iter() {
        let c = b + dl;
        if !(0..=255).contains(&c) {
            continue;
        }
        for fixed in [0i32, 1, 2, 127, 159, 253, 254, 255, b, c] {
            for solve_d in [true, false] {
                let start = pats.len();
                for t in targets.iter() {
                    for r in 0..8 {
                        // numerator n with n / 8 (truncating) == t
                        let n = if *t >= 0 { 8 * t + r } else { 8 * t - r };
                        if *t == 0 && r > 0 {
                            // both signs of the remainder
                            for n2 in [r, -r] {
                                let v = if solve_d { fixed - 4 * b + 4 * c - n2 } else { n2 + 4 * b - 4 * c + fixed };
                                if (0..=255).contains(&v) {
                                    pats.push(if solve_d { [fixed as u8, b as u8, c as u8, v as u8] } else { [v as u8, b as u8, c as u8, fixed as u8] });
                                }
                            }
                            continue;
                        }
                        let v = if solve_d { fixed - 4 * b + 4 * c - n } else { n + 4 * b - 4 * c + fixed };
                        if (0..=255).contains(&v) {
                            pats.push(if solve_d { [fixed as u8, b as u8, c as u8, v as u8] } else { [v as u8, b as u8, c as u8, fixed as u8] });
                        }
                    }
                }
                // whole groups of eight lanes per (A,B,C) / (B,C,D)
                while pats.len() > start && (pats.len() - start) % 8 != 0 {
                    let last = *pats.last().unwrap();
                    pats.push(last);
                }
            }
        }
    }
    let st = s as u8;
    let exp = expect_of(&pats, st);
    let nt = nontrivial_count(&pats, &exp);
    for site in 0..4 {
        if let Err(m) = run_site(site, st, &pats, &exp) {
            acc.fail(json!({"kind":"params","ramp_item":i,"strength":st,"site":site}), m);
            return;
        }
        acc.count_n(pats.len() as u64, nt);
    }
    if i == 40 {
        acc.sample(|| json!({"strength": st, "B": b, "patterns": pats.len(), "first": format!("{:?}", &pats[..pats.len().min(4)]), "d_targets": format!("{:?}", targets)}));
    }
}

/// Exhaustive: item = (A,B); inner = all 65536 (C,D) x 12 strengths x 4 sites.
fn full_item(i: u64, acc: &mut Acc) {
    let a = (i >> 8) as u8;
    let b = (i & 255) as u8;
    let mut pats = Vec::with_capacity(65536);
    for c in 0..=255u8 {
        for d in 0..=255u8 {
            pats.push([a, b, c, d]);
        }
    }
    for s in 1..=12u8 {
        let exp = expect_of(&pats, s);
        let nt = nontrivial_count(&pats, &exp);
        for site in 0..4 {
            if let Err(m) = run_site(site, s, &pats, &exp) {
                acc.fail(json!({"kind":"params","a":a,"b":b,"strength":s,"site":site,"lattice":false}), m);
                return;
            }
            acc.count_n(65536, nt);
        }
    }
    if i == 0x6496 {
        acc.sample(|| json!({"A": a, "B": b, "C,D": "all 65536", "strengths": "1..=12", "sites": SITES}));
    }
}

fn random_kernel_case(g: &mut Gen) -> Verdict {
    let site = g.below(4) as usize;
    let s = g.range(1, 12) as u8;
    let n = g.range(1, 1500) as usize;
    let mode = g.below(3);
    let mut pats = Vec::with_capacity(n);
    for _ in 0..n {
        let w = g.word();
        let p = [(w >> 24) as u8, (w >> 16) as u8, (w >> 8) as u8, w as u8];
        pats.push(match mode {
            // near-flat edges: small differences around a base (the region where the ramp is active)
            1 => {
                let base = p[0];
                [base, base.wrapping_add(p[1] & 15).wrapping_sub(8), base.wrapping_add(p[2] & 31).wrapping_sub(16), base.wrapping_add(p[3] & 15).wrapping_sub(8)]
            }
            // falling / rising steps
            2 => {
                let (hi, lo) = (p[0].max(p[1]), p[0].min(p[1]));
                if p[2] & 1 == 0 { [hi, hi.wrapping_sub(p[3] & 3), lo.wrapping_add(p[3] >> 6), lo] } else { [lo, lo.wrapping_add(p[3] & 3), hi.wrapping_sub(p[3] >> 6), hi] }
            }
            _ => p,
        });
    }
    let exp = expect_of(&pats, s);
    g.describe(|| json!({"site": SITES[site], "strength": s, "patterns": pats.len(), "first": &pats[..pats.len().min(4)]}));
    match run_site(site, s, &pats, &exp) {
        Err(m) => Verdict::fail(m),
        Ok(()) => {
            let nt = nontrivial_count(&pats, &exp);
            let mut key = site as u64 ^ ((s as u64) << 8);
            for p in &pats {
                key = crate::bits::fnv64_extend(key, p);
            }
            Verdict::pass_l(nt > 0, key, vec![["site 0", "site 1", "site 2", "site 3"][site], ["uniform patterns", "near-flat patterns", "step patterns"][mode as usize]])
        }
    }
}

/// Image content families for whole-image comparison.
fn image(w: usize, h: usize, family: u32, src: &mut dyn FnMut() -> u8) -> Vec<u8> {
    let mut img = vec![0u8; w * h];
    match family {
        0 => {
            for v in img.iter_mut() {
                *v = src();
            }
        }
        1 => {
            // piecewise flat: every 8x8 block has its own level (rising and falling steps at block
            // edges) plus small texture
            let bw = (w + 7) / 8;
            let bh = (h + 7) / 8;
            let levels: Vec<u8> = (0..bw * bh).map(|_| src()).collect();
            let amp = src() & 7;
            for y in 0..h {
                for x in 0..w {
                    let l = levels[x / 8 + (y / 8) * bw] as i32;
                    let t = if amp == 0 { 0 } else { (src() % (amp + 1)) as i32 - (amp / 2) as i32 };
                    img[x + y * w] = (l + t).clamp(0, 255) as u8;
                }
            }
        }
        2 => {
            for v in img.iter_mut() {
                *v = match src() & 3 {
                    0 => 0,
                    1 => 255,
                    2 => 1,
                    _ => 254,
                };
            }
        }
        3 => {
            // plateaus inside ramps: samples are equal in pairs that straddle every block edge
            // (row 7 == row 8, column 7 == column 8, ...) while the outer samples of the four differ
            let base = src() as i32;
            let kx = (src() % 25) as i32 - 12;
            let ky = (src() % 25) as i32 - 12;
            let per_col = src() & 1 == 1;
            let cols: Vec<i32> = (0..w).map(|_| if per_col { (src() % 40) as i32 } else { 0 }).collect();
            for y in 0..h {
                for x in 0..w {
                    let v = base + cols[x] + kx * ((x as i32 + 1) / 2) + ky * ((y as i32 + 1) / 2);
                    img[x + y * w] = v.rem_euclid(512).min(511 - v.rem_euclid(512)).clamp(0, 255) as u8;
                }
            }
        }
        5 => {
            // repeating tiles: the image is tiled with one to three 8x8 tiles (flat, or written with
            // an alphabet of one to three values per sample / per row / per column), chosen per
            // block - equal blocks next to each other, flat blocks next to textured ones, the same
            // pair of blocks meeting at many edges. A filter that skips, remembers or batches edges
            // by looking at whole blocks has to get all of these right.
            const NOTABLE: [u8; 8] = [0, 1, 2, 127, 128, 253, 254, 255];
            let mut value = |src: &mut dyn FnMut() -> u8| -> u8 {
                let a = src();
                if a & 1 == 0 {
                    NOTABLE[(a >> 1) as usize % 8]
                } else {
                    src()
                }
            };
            let na = 1 + src() as usize % 3;
            let alpha: Vec<u8> = (0..na).map(|_| value(src)).collect();
            let nt = 1 + src() as usize % 3;
            let mut tiles: Vec<[u8; 64]> = Vec::new();
            for _ in 0..nt {
                let mut t = [0u8; 64];
                let style = src() % 4;
                let line: Vec<u8> = (0..8).map(|_| alpha[src() as usize % na]).collect();
                let flat = alpha[src() as usize % na];
                for y in 0..8 {
                    for x in 0..8 {
                        t[x + y * 8] = match style {
                            0 => flat,
                            1 => alpha[src() as usize % na],
                            2 => line[y],
                            _ => line[x],
                        };
                    }
                }
                tiles.push(t);
            }
            let bw = (w + 7) / 8;
            let bh = (h + 7) / 8;
            let pick: Vec<usize> = (0..bw * bh).map(|_| src() as usize % nt).collect();
            for y in 0..h {
                for x in 0..w {
                    img[x + y * w] = tiles[pick[x / 8 + (y / 8) * bw]][(x % 8) + (y % 8) * 8];
                }
            }
        }
        6 => {
            // nearly flat: the whole image spans two to five grey levels around one base level
            // (a global "is this picture flat?" test sits right at its threshold)
            let base = src();
            let span = 1 + src() % 4; // max - min = 1..4
            let base = base.min(255 - span);
            let sparse = src() & 1 == 1;
            for v in img.iter_mut() {
                let r = src();
                *v = base + if sparse { if r % 16 == 0 { span } else { 0 } } else { r % (span + 1) };
            }
            if !img.is_empty() {
                // make sure both ends of the span occur
                let k = img.len();
                img[src() as usize * 131 % k] = base;
                img[src() as usize * 137 % k] = base + span;
            }
        }
        7 => {
            // headroom-limited: no sample closer than m to 0 or 255 (m = 1..12, the strengths),
            // piecewise flat 8x8 blocks at the two ends of that range and in between, with steps
            // that make both passes overshoot at block corners
            let m = 1 + src() % 12;
            let bw = (w + 7) / 8;
            let bh = (h + 7) / 8;
            let levels: Vec<u8> = (0..bw * bh)
                .map(|_| match src() % 6 {
                    0 => m,
                    1 => 255 - m,
                    2 => m + src() % 4,
                    3 => 255 - m - src() % 4,
                    4 => (255 - m).saturating_sub(96 + src() % 8).max(m),
                    _ => (m + 96 + src() % 8).min(255 - m),
                })
                .collect();
            for y in 0..h {
                for x in 0..w {
                    img[x + y * w] = levels[x / 8 + (y / 8) * bw];
                }
            }
        }
        _ => {
            // constant rows or constant columns (every lane of a vector chunk sees the same pattern)
            let rows = src() & 1 == 0;
            let n = if rows { h } else { w };
            let vals: Vec<u8> = (0..n).map(|_| src()).collect();
            for y in 0..h {
                for x in 0..w {
                    img[x + y * w] = if rows { vals[y] } else { vals[x] };
                }
            }
        }
    }
    img
}

fn check_image(img: &[u8], w: usize, s: u8) -> Result<bool, String> {
    let h = img.len() / w;
    // the image is handed over as a sub-slice at byte offset 0..7 of a larger buffer (planes of
    // packed frames; nothing promises a caller's slice any alignment)
    let off = (w * 3 + h + s as usize) % 8;
    let mut buf = vec![0xA5u8; off];
    buf.extend_from_slice(img);
    buf.extend_from_slice(&[0x5A; 5]);
    let view = &buf[off..off + img.len()];
    let out = guard(|| deblock(view, w, s)).map_err(|p| format!("deblock({}x{}, strength {}, input at byte offset {} of its buffer) panicked: {}", w, h, s, off, p))?;
    let want = deblock_ref(img, w, s);
    if out.len() != want.len() {
        return Err(format!("{}x{}: output length {} != {}", w, h, out.len(), want.len()));
    }
    if out != want {
        let i = out.iter().zip(want.iter()).position(|(a, b)| a != b).unwrap();
        let (x, y) = (i % w, i / w);
        return Err(format!(
            "{}x{}, strength {}: sample ({},{}) = {} (input {}), Annex J reference gives {}",
            w, h, s, x, y, out[i], img[i], want[i]
        ));
    }
    Ok(want != img)
}

fn grid_item(seed: u64, wmax: u64, i: u64, acc: &mut Acc) {
    let w = (i % wmax + 1) as usize;
    let h = (i / wmax) as usize;
    for family in 0..8u32 {
        for s in 1..=12u8 {
            let bytes = super::content_bytes(seed ^ ((w as u64) << 24) ^ ((h as u64) << 12) ^ ((family as u64) << 4) ^ s as u64, w * h * 2 + 128);
            let mut k = 0;
            let mut src = || {
                k += 1;
                bytes[(k - 1) % bytes.len()]
            };
            let img = image(w, h, family, &mut src);
            match check_image(&img, w, s) {
                Err(m) => {
                    acc.fail(json!({"kind":"params","w":w,"h":h,"family":family,"strength":s}), m);
                    return;
                }
                Ok(nt) => acc.count(nt),
            }
        }
    }
    if w % 8 != 0 && h >= 10 {
        acc.label_n("horizontal edge with remainder columns", 96);
    }
    if h % 8 != 0 && w >= 10 {
        acc.label_n("vertical edge with remainder rows", 96);
    }
    if h < 10 && w < 10 {
        acc.label_n("no filterable edge", 96);
    }
    if w == 19 && h == 11 {
        acc.sample(|| json!({"w": w, "h": h, "families": ["hash bytes", "piecewise flat 8x8 blocks", "extremes", "plateaus in ramps", "constant rows / columns", "repeating tiles", "nearly flat (2..5 levels)", "headroom-limited blocks"], "strengths": "1..=12"}));
    }
}

fn random_image_case(g: &mut Gen, wmax: i64, hmax: i64) -> Verdict {
    let w = if g.chance(1, 3) { g.range(1, 40) } else { g.range(1, wmax) } as usize;
    let hcap = (6000 / w as i64).clamp(1, hmax);
    let h = g.range(0, hcap) as usize;
    let s = g.range(1, 12) as u8;
    let family = g.below(8);
    let mut src = || g.byte();
    let img = image(w, h, family, &mut src);
    g.describe(|| json!({"w": w, "h": h, "strength": s, "family": family, "head": &img[..img.len().min(24)]}));
    match check_image(&img, w, s) {
        Err(m) => Verdict::fail(m),
        Ok(nt) => Verdict::pass_l(
            nt,
            fnv64(&img) ^ ((w as u64) << 40) ^ ((s as u64) << 56),
            vec![["uniform", "piecewise flat", "extremes", "plateaus in ramps", "constant rows / columns", "repeating tiles", "nearly flat", "headroom-limited blocks"][family as usize]],
        ),
    }
}

/// Images far larger in one dimension than any picture: widths / heights around 2^12, 2^13, 2^16.
const EXTREME: [usize; 27] = [2047, 2048, 2049, 4094, 4095, 4096, 4097, 4098, 4099, 4104, 4106, 8190, 8192, 8193, 8194, 8202, 16384, 16394, 32768, 32778, 65535, 65536, 65537, 65538, 65546, 65560, 131082];
const SMALL: [usize; 8] = [7, 8, 9, 10, 11, 16, 18, 19];

fn extreme_item(seed: u64, i: u64, acc: &mut Acc) {
    let big = EXTREME[(i % 27) as usize];
    let small = SMALL[((i / 27) % 8) as usize];
    let wide = (i / 216) % 2 == 0;
    let (w, h) = if wide { (big, small) } else { (small, big) };
    for (family, s) in [(1u32, 4u8), (3, 9), (4, 12), (5, 7)] {
        let bytes = super::content_bytes(seed ^ ((w as u64) << 24) ^ ((h as u64) << 4) ^ family as u64, 8192);
        let mut k = 0;
        let mut src = || {
            k += 1;
            bytes[(k - 1) % bytes.len()]
        };
        let img = image(w, h, family, &mut src);
        match check_image(&img, w, s) {
            Err(m) => {
                acc.fail(json!({"kind":"params","w":w,"h":h,"family":family,"strength":s,"extreme":true,"item":i}), m);
                return;
            }
            Ok(nt) => acc.count(nt),
        }
    }
    acc.label_n(if wide { "very wide" } else { "very tall" }, 4);
    if i == 5 {
        acc.sample(|| json!({"w": w, "h": h, "families": ["piecewise flat", "plateaus in ramps", "constant rows / columns"], "strengths": [4, 9, 12]}));
    }
}

/// Echo images: the four rows (columns) around every block edge but the first are the Annex J
/// *output* of the four rows (columns) around the edge before it, computed with the reference
/// model for the strength in use - a chain of successively softened edges. An implementation that
/// filters in place and compares, caches or reuses anything across edges meets its own earlier
/// output here.
fn echo_image(w: usize, h: usize, s: u8, vertical: bool, src: &mut dyn FnMut() -> u8) -> Vec<u8> {
    // build for horizontal edges (rows), transpose at the end for vertical ones
    let (cols, rows) = if vertical { (h, w) } else { (w, h) };
    let mut img = vec![0u8; cols * rows];
    for v in img.iter_mut() {
        *v = src();
    }
    let alpha: Vec<u8> = (0..1 + src() as usize % 3).map(|_| src()).collect();
    let mut quad: Vec<[u8; 4]> = (0..cols)
        .map(|_| {
            let base = alpha[src() as usize % alpha.len()] as i32;
            let step = (src() % 41) as i32 - 20;
            [base.clamp(0, 255) as u8, base.clamp(0, 255) as u8, (base + step).clamp(0, 255) as u8, (base + step).clamp(0, 255) as u8]
        })
        .collect();
    let mut e = 8;
    while e + 1 < rows {
        for x in 0..cols {
            for k in 0..4 {
                img[x + (e - 2 + k) * cols] = quad[x][k];
            }
            let (a, b, c, d) = filter4(quad[x][0], quad[x][1], quad[x][2], quad[x][3], s);
            quad[x] = [a, b, c, d];
        }
        e += 8;
    }
    if !vertical {
        return img;
    }
    let mut t = vec![0u8; w * h];
    for y in 0..h {
        for x in 0..w {
            t[x + y * w] = img[y + x * cols];
        }
    }
    t
}

fn echo_case(g: &mut Gen) -> Verdict {
    let vertical = g.bool();
    let long = g.range(18, 60) as usize;
    let short = if g.chance(1, 3) { g.range(1, 9) } else { g.range(8, 40) } as usize;
    let (w, h) = if vertical { (long, short) } else { (short, long) };
    let s = g.range(1, 12) as u8;
    let mut src = || g.byte();
    let img = echo_image(w, h, s, vertical, &mut src);
    g.describe(|| json!({"w": w, "h": h, "strength": s, "edges": if vertical { "vertical" } else { "horizontal" }, "head": &img[..img.len().min(32)]}));
    match check_image(&img, w, s) {
        Err(m) => Verdict::fail(m),
        Ok(nt) => Verdict::pass_l(nt, fnv64(&img) ^ ((w as u64) << 40) ^ ((s as u64) << 56), vec![if vertical { "echo across vertical edges" } else { "echo across horizontal edges" }]),
    }
}

/// Consecutive calls on images that differ in a few samples only (successive frames of a still
/// scene): whatever a call keeps from the one before - a memo keyed on a digest of part of the
/// image, a reused buffer - must not reach the next result.
fn sibling_case(g: &mut Gen) -> Verdict {
    let w = g.range(1, 48) as usize;
    let h = g.range(1, (1600 / w as i64).clamp(1, 48)) as usize;
    let s = g.range(1, 12) as u8;
    let family = g.below(8);
    let mut src = || g.byte();
    let first = image(w, h, family, &mut src);
    let steps = g.range(1, 4) as usize;
    let mut frames = vec![first.clone()];
    let mut cur = first;
    let mut moved = Vec::new();
    for _ in 0..steps {
        if g.chance(1, 6) {
            // the first frame again
            cur = frames[0].clone();
        } else {
            for _ in 0..g.range(1, 3) {
                let i = g.range(0, cur.len() as i64 - 1) as usize;
                let d = if g.bool() { g.range(1, 3) as u8 } else { g.byte() | 1 };
                cur[i] = cur[i].wrapping_add(d);
                moved.push(i);
            }
        }
        frames.push(cur.clone());
    }
    g.describe(|| json!({"w": w, "h": h, "strength": s, "family": family, "frames": frames.len(), "changed_samples": &moved, "head": &frames[0][..frames[0].len().min(24)]}));
    let mut nt = false;
    for (k, f) in frames.iter().enumerate() {
        match check_image(f, w, s) {
            Err(m) => return Verdict::fail(format!("call {} of {} on frames differing in samples {:?}: {}", k + 1, frames.len(), moved, m)),
            Ok(n) => nt |= n && k > 0,
        }
    }
    Verdict::pass_l(nt, fnv64(&frames[frames.len() - 1]) ^ ((w as u64) << 40) ^ ((s as u64) << 56), vec![if moved.is_empty() { "same frame again" } else { "frames differing in a few samples" }])
}

/// Images of two megasamples and more with both dimensions large (a frame of video, not a strip):
/// whatever depends on the total size - work split over threads or bands, with seams - shows here.
const LARGE_AREA: [(usize, usize); 8] = [(2048, 1040), (1920, 1088), (1500, 1400), (4096, 520), (520, 4096), (2056, 1021), (1021, 2056), (3000, 705)];

fn large_area_item(seed: u64, i: u64, acc: &mut Acc) {
    let (w, h) = LARGE_AREA[(i / 2) as usize % LARGE_AREA.len()];
    let family = if i % 2 == 0 { 1u32 } else { 0 };
    let s = [3u8, 12, 7, 1, 9, 5, 11, 2][(i / 2) as usize % 8];
    let bytes = super::content_bytes(seed ^ ((w as u64) << 24) ^ ((h as u64) << 4) ^ family as u64, 1 << 16);
    let mut k = 0;
    let mut src = || {
        k += 1;
        bytes[(k - 1) % bytes.len()] ^ (k >> 16) as u8
    };
    let img = image(w, h, family, &mut src);
    match check_image(&img, w, s) {
        Err(m) => acc.fail(json!({"kind":"params","large_area":i}), m),
        Ok(nt) => acc.count(nt),
    }
    if i == 0 {
        acc.sample(|| json!({"sizes": format!("{:?}", LARGE_AREA), "contents": ["piecewise flat", "hash bytes"]}));
    }
}

pub fn run(ctx: &Ctx) -> i32 {
    let seed = ctx.seed;
    let mut reports = vec![super::regression_suite(ctx)];
    let gw = ctx.tier.pick(48u64, 96u64);
    let gh = ctx.tier.pick(48u64, 64u64);
    reports.push(exhaustive_suite(ctx, "size_grid", gw * (gh + 1), &move |i, acc| grid_item(seed, gw, i, acc)));
    reports.push(exhaustive_suite(ctx, "extreme_aspect", 432, &move |i, acc| extreme_item(seed, i, acc)));
    reports.push(exhaustive_suite(ctx, "large_area", ctx.tier.pick(8u64, 16u64), &move |i, acc| large_area_item(seed, i, acc)));
    reports.push(exhaustive_suite(ctx, "kernel_lattice", 28 * 28, &lattice_item));
    reports.push(exhaustive_suite(ctx, "kernel_ramp_boundaries", 12 * 9, &ramp_item));
    let kc = ctx.tier.pick(120_000u64, 1_000_000u64);
    reports.push(tape_suite(ctx, "kernel_random", kc, 1504, &random_kernel_case));
    let (ic, iw, ih) = ctx.tier.pick((60_000u64, 160i64, 120i64), (600_000u64, 400i64, 300i64));
    reports.push(tape_suite(ctx, "random_images", ic, 6200, &move |g| random_image_case(g, iw, ih)));
    reports.push(tape_suite(ctx, "echo_images", ctx.tier.pick(20_000u64, 300_000u64), 3000, &echo_case));
    reports.push(tape_suite(ctx, "sibling_frames", ctx.tier.pick(20_000u64, 300_000u64), 1800, &sibling_case));
    let mut kernel_exhaustive = false;
    if ctx.tier == Tier::Thorough {
        let r = exhaustive_suite(ctx, "kernel_exhaustive", 65536, &full_item);
        kernel_exhaustive = r.exhaustive;
        reports.push(r);
    }
    let mut extra = Map::new();
    extra.insert("kernel_domain_complete".into(), json!(kernel_exhaustive));
    extra.insert("sites".into(), json!(SITES));
    finish(
        ctx,
        reports,
        Summary {
            rule: "Kernel suites place four-sample patterns at each of the four code sites (vector lanes / scalar remainder, for horizontal and vertical edges) in images where no other edge is filterable and compare with a scalar Annex J reference (truncating division); kernel_lattice enumerates 28^4 patterns x 12 strengths x 4 sites, kernel_exhaustive (thorough) all 2^32 x 12 x 4, kernel_ramp_boundaries solves the fourth sample so that d = (A-4B+4C-D)/8 lands on 0, +-1, +-(S-1..S+1), +-(2S-2..2S+1) and +-159 with every truncation remainder, for C at strength-dependent distances from B, whole groups of eight lanes sharing (A,B,C) or (B,C,D); kernel_random draws patterns from the proptest tape. sibling_frames: two to five consecutive calls on frames of one size and strength that differ in one to a few samples (or the first frame again), each result compared with the reference. echo_images: the samples around every edge are the reference filter's output of the samples around the edge before (the implementation meets its own earlier output). size_grid / random_images compare whole images of every size in a dense box (and random larger sizes) with a whole-image reference (horizontal edges first, then vertical). Non-trivial = the reference output differs from the input; evaluations counts patterns (kernel suites) or images.",
            assumptions: vec![
                "strength in 1..=12 and data.len() % width == 0 (documented preconditions)".into(),
                "Annex J as recalled: d=(A-4B+4C-D)/8, d1=UpDownRamp(d,S), d2=clip((A-D)/4, +-|d1/2|), B1=clip(B+d1), C1=clip(C-d1), A1=A-d2, D1=D+d2".into(),
            ],
            exhaustive: kernel_exhaustive,
            extra,
        },
    )
}

pub fn replay(suite: &str, case: &Value) -> Option<Verdict> {
    match suite {
        "kernel_random" => {
            let tape = super::tape_of(case)?;
            Some(random_kernel_case(&mut Gen::new(&tape)))
        }
        "random_images" => {
            let tape = super::tape_of(case)?;
            let thorough = case["tier"].as_str() == Some("thorough");
            let (iw, ih) = if thorough { (400, 300) } else { (160, 120) };
            Some(random_image_case(&mut Gen::new(&tape), iw, ih))
        }
        "large_area" => {
            let mut acc = Acc::default();
            large_area_item(case["seed"].as_u64().unwrap_or(1), case["large_area"].as_u64()?, &mut acc);
            Some(match acc.failure {
                Some((_, _, m, _)) => Verdict::fail(m),
                None => Verdict::pass(true, 0),
            })
        }
        "echo_images" => {
            let tape = super::tape_of(case)?;
            Some(echo_case(&mut Gen::new(&tape)))
        }
        "sibling_frames" => {
            let tape = super::tape_of(case)?;
            Some(sibling_case(&mut Gen::new(&tape)))
        }
        "kernel_ramp_boundaries" => {
            let mut acc = Acc::default();
            ramp_item(case["ramp_item"].as_u64()?, &mut acc);
            Some(match acc.failure {
                Some((_, _, m, _)) => Verdict::fail(m),
                None => Verdict::pass(true, 0),
            })
        }
        "kernel_lattice" | "kernel_exhaustive" => {
            let a = case["a"].as_u64()? as u8;
            let b = case["b"].as_u64()? as u8;
            let mut acc = Acc::default();
            if suite == "kernel_lattice" {
                let ia = LATTICE.iter().position(|v| *v == a)? as u64;
                let ib = LATTICE.iter().position(|v| *v == b)? as u64;
                lattice_item(ia * 28 + ib, &mut acc);
            } else {
                full_item((a as u64) << 8 | b as u64, &mut acc);
            }
            Some(match acc.failure {
                Some((_, _, m, _)) => Verdict::fail(m),
                None => Verdict::pass(true, 0),
            })
        }
        "extreme_aspect" => {
            let mut acc = Acc::default();
            extreme_item(case["seed"].as_u64().unwrap_or(1), case["item"].as_u64()?, &mut acc);
            Some(match acc.failure {
                Some((_, _, m, _)) => Verdict::fail(m),
                None => Verdict::pass(true, 0),
            })
        }
        "size_grid" => {
            let w = case["w"].as_u64()? as usize;
            let h = case["h"].as_u64()? as usize;
            let family = case["family"].as_u64()? as u32;
            let s = case["strength"].as_u64()? as u8;
            let seed = case["seed"].as_u64().unwrap_or(1);
            let bytes = super::content_bytes(seed ^ ((w as u64) << 24) ^ ((h as u64) << 12) ^ ((family as u64) << 4) ^ s as u64, w * h * 2 + 128);
            let mut k = 0;
            let mut src = || {
                k += 1;
                bytes[(k - 1) % bytes.len()]
            };
            let img = image(w, h, family, &mut src);
            Some(match check_image(&img, w, s) {
                Ok(_) => Verdict::pass(true, 0),
                Err(m) => Verdict::fail(m),
            })
        }
        _ => None,
    }
}
