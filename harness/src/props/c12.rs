//! C12 - motion vectors are reconstructed exactly for every predictor/differential pair.

use super::c03::check_inter;
use super::common::*;
use crate::dec::*;
use crate::gen::Gen;
use crate::model::recon::*;
use crate::runner::*;
use crate::syntax::*;
use h263_rs::H263State;
use serde_json::{json, Map, Value};

#[derive(Clone, Copy, Debug, PartialEq)]
pub enum Spec {
    NotCoded,
    Intra,
    /// one vector, given as the wanted reconstructed vector
    Want1((i32, i32)),
    /// four vectors, wanted values
    Want4([(i32, i32); 4]),
    /// one vector, given as the raw differential
    Diff1((i8, i8)),
    /// four vectors, raw differentials
    Diff4([(i8, i8); 4]),
}

fn diff_for(want: i32, pred: i32) -> i8 {
    // differential d in [-32, 31] with wrap(pred + d) == want
    (((want - pred + 32).rem_euclid(64)) - 32) as i8
}

/// Build a P picture from a field of macroblock specifications; the encoder side computes the
/// differentials that realise wanted vectors, using the reference model's predictor.
pub fn build_p(hdr: &Header, specs: &[Spec]) -> Pic {
    build_p_q(hdr, specs, 0)
}

/// As `build_p`; macroblock `i` uses the type with a quantizer update (INTER+Q / INTER4V+Q) when
/// bit `i % 64` of `qsel` is set. (No residual is coded, so the quantizer itself is immaterial,
/// but the macroblock type - and with it the parsing of its vectors - is another one.)
pub fn build_p_q(hdr: &Header, specs: &[Spec], qsel: u64) -> Pic {
    let (mbw, _) = hdr.mb_dims().unwrap();
    let mut done: Vec<Option<[(i32, i32); 4]>> = Vec::new();
    let mut mbs = Vec::new();
    for (i, s) in specs.iter().enumerate() {
        let (mx, my) = (i % mbw, i / mbw);
        let mut cur = [(0i32, 0i32); 4];
        let mut mb;
        match s {
            Spec::NotCoded => {
                mb = Mb::not_coded();
                done.push(None);
            }
            Spec::Intra => {
                mb = Mb::new(MbKind::Intra);
                for b in 0..6 {
                    mb.blocks[b].dc = 40 + ((i * 6 + b) % 150) as u8;
                    if mb.blocks[b].dc == 128 {
                        mb.blocks[b].dc = 127;
                    }
                }
                done.push(None);
            }
            Spec::Want1(_) | Spec::Diff1(_) => {
                mb = Mb::new(if (qsel >> (i % 64)) & 1 == 1 { MbKind::InterQ } else { MbKind::Inter });
                if mb.kind == MbKind::InterQ {
                    mb.dquant = if i % 2 == 0 { 1 } else { -1 };
                }
                let p = predict_mv(&done, &cur, mbw, mx, my, 0);
                let d = match s {
                    Spec::Want1(v) => (diff_for(v.0, p.0), diff_for(v.1, p.1)),
                    Spec::Diff1(d) => *d,
                    _ => unreachable!(),
                };
                mb.mvd[0] = d;
                let r = (wrap_mv(p.0, d.0 as i32), wrap_mv(p.1, d.1 as i32));
                done.push(Some([r; 4]));
            }
            Spec::Want4(_) | Spec::Diff4(_) => {
                mb = Mb::new(if (qsel >> (i % 64)) & 1 == 1 { MbKind::Inter4VQ } else { MbKind::Inter4V });
                if mb.kind == MbKind::Inter4VQ {
                    mb.dquant = if i % 2 == 0 { -1 } else { 1 };
                }
                for b in 0..4 {
                    let p = predict_mv(&done, &cur, mbw, mx, my, b);
                    let d = match s {
                        Spec::Want4(v) => (diff_for(v[b].0, p.0), diff_for(v[b].1, p.1)),
                        Spec::Diff4(d) => d[b],
                        _ => unreachable!(),
                    };
                    mb.mvd[b] = d;
                    cur[b] = (wrap_mv(p.0, d.0 as i32), wrap_mv(p.1, d.1 as i32));
                }
                done.push(Some(cur));
            }
        }
        mbs.push(mb);
    }
    Pic { hdr: hdr.clone(), mbs, trailing_zero_bits: 0 }
}

/// High-entropy intra reference picture: every block has its own DC and several AC coefficients
/// (content is a fixed function of position; no two displaced 8x8 windows look alike).
pub fn entropy_reference(mode: Mode, version: u8, size: Size, salt: u64) -> Pic {
    let mut hdr = match mode {
        Mode::Sorenson => Header::sorenson(version, PicType::I, size, 4),
        Mode::Standard => Header::standard(PicType::I, size, 4),
    };
    hdr.tr = 17;
    let (mbw, mbh) = hdr.mb_dims().unwrap();
    let bytes = super::content_bytes(0xC12 ^ salt, mbw * mbh * 6 * 8);
    let mut k = 0;
    let mut next = || {
        k += 1;
        bytes[k - 1]
    };
    let mut mbs = Vec::new();
    for _ in 0..mbw * mbh {
        let mut mb = Mb::new(MbKind::Intra);
        for b in 0..6 {
            let dc = 48 + next() % 160;
            mb.blocks[b].dc = if dc == 128 { 129 } else { dc };
            let mut ev = Vec::new();
            for _ in 0..5 {
                let v = next();
                let level = ((v & 7) as i16 + 2) * if v & 8 == 0 { 1 } else { -1 };
                ev.push(Event { run: (v >> 6) & 1, level, force_escape: false, wide: false });
            }
            mb.blocks[b].events = ev;
        }
        mbs.push(mb);
    }
    Pic { hdr, mbs, trailing_zero_bits: 0 }
}

/// Decode reference + P and compare with the model. Returns the model's statistics.
fn run_field(mode: Mode, version: u8, size: Size, specs: &[Spec]) -> Result<ModelStats, String> {
    run_field_form(mode, version, size, specs, &Form::default())
}

/// How the two pictures are written: header forms of the reference and the predicted picture
/// (standard mode), UMV mode bit in the reference's header, and which macroblocks use the +Q types.
#[derive(Clone, Copy, Debug)]
pub struct Form {
    pub ref_plus: PlusForm,
    pub ref_umv: bool,
    pub p_plus: PlusForm,
    pub qsel: u64,
    /// macroblock `i` is preceded by one or two MCBPC stuffing codewords when bit `i % 64` is set
    pub stuff: u64,
}

impl Default for Form {
    fn default() -> Form {
        Form { ref_plus: PlusForm::Baseline, ref_umv: false, p_plus: PlusForm::Baseline, qsel: 0, stuff: 0 }
    }
}

fn run_field_form(mode: Mode, version: u8, size: Size, specs: &[Spec], form: &Form) -> Result<ModelStats, String> {
    let mut refpic = entropy_reference(mode, version, size, 0);
    if mode == Mode::Standard {
        refpic.hdr.plus = form.ref_plus;
        refpic.hdr.umv = form.ref_umv && crate::gen_pic::optional_modes_accepted().0;
    }
    let mut st = H263State::new(options_scal(mode, specs.len() % 2 == 1 || version == 1));
    match decode_bytes(&mut st, &encode_pic(&refpic)) {
        Outcome::Ok => {}
        o => return Err(format!("reference picture not decoded: {}", o.short())),
    }
    let reference = last_picture(&st).ok_or("no picture")?.planes;
    let mut hdr = refpic.hdr.clone();
    hdr.ptype = PicType::P;
    hdr.quant = 6;
    hdr.tr = 18;
    if mode == Mode::Standard {
        // a header that restates nothing would inherit the reference's UMV mode
        hdr.plus = if form.p_plus == PlusForm::Brief && refpic.hdr.umv_coded() { PlusForm::Full } else { form.p_plus };
    }
    let mut pic = build_p_q(&hdr, specs, form.qsel);
    for (i, mb) in pic.mbs.iter_mut().enumerate() {
        if (form.stuff >> (i % 64)) & 1 == 1 {
            mb.stuffing = 1 + (i % 2) as u8;
        }
    }
    let (model, _, _) = check_inter(&mut st, &pic, &reference)?;
    Ok(model.stats)
}

const SIZE_4X3: Size = Size::Custom8(64, 48);

fn mbw_target(mbw: usize) -> usize {
    mbw + 1
}

/// item = predictor (64 values) x component; inner = all 64 differentials.
fn pred_diff_item(i: u64, acc: &mut Acc) {
    let comp_y = i % 2 == 1;
    let p = (i / 2) as i32 - 32;
    const FORMS: [(PlusForm, bool, PlusForm); 5] = [
        (PlusForm::Full, true, PlusForm::Baseline),
        (PlusForm::Baseline, true, PlusForm::Baseline),
        (PlusForm::Full, true, PlusForm::Full),
        (PlusForm::Full, false, PlusForm::Brief),
        (PlusForm::Baseline, false, PlusForm::Full),
    ];
    for (mode, version) in [(Mode::Sorenson, 0u8), (Mode::Sorenson, 1), (Mode::Standard, 0)] {
        for d in -32i32..=31 {
            // left neighbour and above neighbour both carry the predictor value, so the median is it
            let other = ((p * 7 + d * 3).rem_euclid(64)) - 32; // the other component: arbitrary but varying
            let pv = if comp_y { (other, p) } else { (p, other) };
            // Sorenson: 4x3 macroblocks, target (1,1); standard mode: sub-QCIF (8x6), target (1,1),
            // header forms and the UMV bit of the reference's header vary with the differential
            let (size, mbw, form) = if mode == Mode::Standard {
                let f = FORMS[(d + p).rem_euclid(5) as usize];
                (Size::Sqcif, 8usize, Form { ref_plus: f.0, ref_umv: f.1, p_plus: f.2, qsel: if d & 4 != 0 { 1 << (mbw_target(8) % 64) } else { 0 }, stuff: if d & 2 != 0 { 1 << 8 | 1 << 9 } else { 0 } })
            } else {
                (SIZE_4X3, 4usize, Form { qsel: if d & 1 != 0 { 1 << 5 } else { 0 }, stuff: if d & 2 != 0 { 1 << 4 | 1 << 5 } else { 0 }, ..Form::default() })
            };
            let mut specs = vec![Spec::NotCoded; if mode == Mode::Standard { 48 } else { 12 }];
            specs[1] = Spec::Want1(pv); // above (1,0)
            specs[mbw] = Spec::Want1(pv); // left (0,1)
            let od = ((d * 5 + p).rem_euclid(64) - 32) as i8;
            specs[mbw + 1] = Spec::Diff1(if comp_y { (od, d as i8) } else { (d as i8, od) }); // target (1,1)
            match run_field_form(mode, version, size, &specs, &form) {
                Err(m) => {
                    acc.fail(
                        json!({"kind":"params","suite":"pred_diff","item":i,"d":d}),
                        format!("{} component: predictor {} + differential {} (half-sample units) must give {}: {}", if comp_y { "vertical" } else { "horizontal" }, p, d, wrap_mv(p, d), m),
                    );
                    return;
                }
                Ok(_) => acc.count(p != 0 && d != 0),
            }
        }
    }
    if i == 70 {
        acc.sample(|| json!({"component": if comp_y {"y"} else {"x"}, "predictor_halfsamples": p, "differentials": "-32..=31", "picture": "64x48, target macroblock (1,1)"}));
    }
}

/// item = sum of four vectors (-128..=124) x component; several decompositions each.
fn four_sum_item(i: u64, acc: &mut Acc) {
    let comp_y = i % 2 == 1;
    let s = (i / 2) as i32 - 128;
    // decompositions a+b+c+d = s with each in [-32, 31]
    let mut decs: Vec<[i32; 4]> = Vec::new();
    let base = s.div_euclid(4);
    let rem = s.rem_euclid(4);
    let mut balanced = [base; 4];
    for k in 0..rem as usize {
        balanced[k] += 1;
    }
    decs.push(balanced);
    // skewed: push two toward the limits
    let mut skew = balanced;
    let room_up = 31 - skew[0];
    let room_down = skew[1] + 32;
    let t = room_up.min(room_down);
    skew[0] += t;
    skew[1] -= t;
    decs.push(skew);
    let mut skew2 = balanced;
    let t2 = (31 - skew2[3]).min(skew2[2] + 32).min(9);
    skew2[3] += t2;
    skew2[2] -= t2;
    decs.push(skew2);
    for dec in decs {
        debug_assert_eq!(dec.iter().sum::<i32>(), s);
        let o = [((s * 3).rem_euclid(64)) - 32, ((s * 5 + 9).rem_euclid(64)) - 32, ((s * 11 + 3).rem_euclid(64)) - 32, ((s + 21).rem_euclid(64)) - 32];
        let v: [(i32, i32); 4] = if comp_y { [(o[0], dec[0]), (o[1], dec[1]), (o[2], dec[2]), (o[3], dec[3])] } else { [(dec[0], o[0]), (dec[1], o[1]), (dec[2], o[2]), (dec[3], o[3])] };
        let mut specs = vec![Spec::NotCoded; 12];
        specs[5] = Spec::Want4(v);
        // the first decomposition as INTER4V, the others as INTER4V+Q
        let form = Form { qsel: if v == [(0, 0); 4] || dec == balanced { 0 } else { 1 << 5 }, ..Form::default() };
        match run_field_form(Mode::Sorenson, (i % 2) as u8, SIZE_4X3, &specs, &form) {
            Err(m) => {
                acc.fail(
                    json!({"kind":"params","suite":"four_sum","item":i}),
                    format!("four vectors {:?} sum to {} in {}: chroma vector must be {} half-samples: {}", v, s, if comp_y { "y" } else { "x" }, chroma_from_sum(s), m),
                );
                return;
            }
            Ok(_) => acc.count(true),
        }
    }
    if s == -3 && !comp_y {
        acc.sample(|| json!({"sum_of_four_x": s, "chroma_halfsamples": chroma_from_sum(s), "decompositions": 3}));
    }
}

const NB_VECTORS: [[(i32, i32); 3]; 6] = [
    [(6, -10), (-14, 4), (20, 13)],
    [(6, 13), (20, -10), (-14, 4)],
    [(-14, -10), (6, 13), (20, 4)],
    [(20, 4), (-14, 13), (6, -10)],
    [(-14, 13), (20, 4), (6, -10)],
    [(20, -10), (6, 4), (-14, 13)],
];

/// item = (size, target position, neighbour kinds); inner = vector permutations x target type.
fn neighbour_item(i: u64, acc: &mut Acc) {
    let sizes = [Size::Custom8(64, 48), Size::Custom8(16, 48), Size::Custom8(48, 16), Size::Custom8(16, 16), Size::Custom8(33, 33)];
    let kinds = (i % 27) as usize; // left, above, above-right in base 3: 0 inter, 1 intra, 2 not coded
    let rest = i / 27;
    let si = (rest % 5) as usize;
    let size = sizes[si];
    let (w, h) = size.dims().unwrap();
    let (mbw, mbh) = ((w + 15) / 16, (h + 15) / 16);
    let pos = (rest / 5) as usize;
    if pos >= mbw * mbh {
        return;
    }
    let (mx, my) = (pos % mbw, pos / mbw);
    let kind_of = |k: usize, v: (i32, i32), four: bool| -> Spec {
        match k {
            0 => {
                if four {
                    Spec::Want4([v, (v.0 + 2, v.1 - 3), (v.0 - 5, v.1 + 1), (v.0 + 7, v.1 + 6)])
                } else {
                    Spec::Want1(v)
                }
            }
            1 => Spec::Intra,
            _ => Spec::NotCoded,
        }
    };
    for perm in NB_VECTORS.iter() {
        for four_nb in [false, true] {
            for target in 0..4 {
                let mut specs = vec![Spec::NotCoded; mbw * mbh];
                // fill everything before the target with varied inter macroblocks so that stale or
                // misplaced candidates are never accidentally right
                for j in 0..pos {
                    specs[j] = Spec::Want1((((j as i32 * 9) % 40) - 20, ((j as i32 * 13) % 36) - 18));
                }
                if mx > 0 {
                    specs[pos - 1] = kind_of(kinds % 3, perm[0], four_nb);
                }
                if my > 0 {
                    specs[pos - mbw] = kind_of((kinds / 3) % 3, perm[1], four_nb);
                    if mx + 1 < mbw {
                        specs[pos - mbw + 1] = kind_of(kinds / 9, perm[2], four_nb);
                    }
                }
                specs[pos] = match target {
                    0 => Spec::Diff1((3, -5)),
                    1 => Spec::Diff4([(1, 2), (-3, 4), (5, -6), (-7, -8)]),
                    2 => Spec::Diff4([(0, 0), (0, 0), (0, 0), (0, 0)]),
                    // four vectors of which the first is exactly zero
                    _ => Spec::Want4([(0, 0), (9, -4), (-6, 7), (3, 11)]),
                };
                // +Q macroblock types: a position-dependent selection that changes with the permutation
                let qsel = (0x9E37_79B9_7F4A_7C15u64.rotate_left((perm[0].0 + 32) as u32)) & if target == 2 { 0 } else { !0 };
                // MCBPC stuffing before the first macroblock of every row, before the target, or nowhere
                let stuff: u64 = match (perm[0].0 + perm[1].1).rem_euclid(3) {
                    0 => 0,
                    1 => (0..mbh).fold(0u64, |a, r| a | 1 << ((r * mbw) % 64)),
                    _ => 1 << (pos % 64),
                };
                match run_field_form(Mode::Sorenson, 1, size, &specs, &Form { qsel, stuff, ..Form::default() }) {
                    Err(m) => {
                        acc.fail(
                            json!({"kind":"params","suite":"neighbours","item":i}),
                            format!(
                                "{}x{} picture, target macroblock ({},{}), neighbours left/above/above-right = {:?} with vectors {:?} ({} neighbours), target {}: {}",
                                w, h, mx, my,
                                [kinds % 3, (kinds / 3) % 3, kinds / 9].map(|k| ["inter", "intra", "not coded"][k]),
                                perm,
                                if four_nb { "four-vector" } else { "one-vector" },
                                ["one vector", "four vectors", "four zero differentials", "four vectors, the first zero"][target],
                                m
                            ),
                        );
                        return;
                    }
                    Ok(_) => acc.count(true),
                }
            }
        }
    }
    let cfg_label = match (mbw, mx, my) {
        (1, _, _) => "single column",
        (_, 0, 0) => "first row, first column",
        (_, _, 0) if mx + 1 == mbw => "first row, last column",
        (_, _, 0) => "first row, interior",
        (_, 0, _) => "other row, first column",
        _ if mx + 1 == mbw => "other row, last column",
        _ => "other row, interior",
    };
    acc.label_n(cfg_label, 48);
    if i == 27 * 5 * 5 + 4 {
        acc.sample(|| json!({"size": format!("{:?}", size), "target": [mx, my], "neighbour_kinds": kinds, "vector_permutations": 6, "targets": ["1MV", "4MV", "4MV zero diff"]}));
    }
}

fn random_field_case(g: &mut Gen) -> Verdict {
    let (mode, version) = *g.pick(&[(Mode::Sorenson, 0u8), (Mode::Sorenson, 1), (Mode::Standard, 0)]);
    let size = if mode == Mode::Standard { Size::Sqcif } else { Size::Custom8(g.range(1, 96) as u8, g.range(1, 80) as u8) };
    let (w, h) = size.dims().unwrap();
    let n = ((w + 15) / 16) * ((h + 15) / 16);
    let mut specs = Vec::with_capacity(n);
    for _ in 0..n {
        specs.push(match g.weighted(&[2, 1, 5, 4]) {
            0 => Spec::NotCoded,
            1 => Spec::Intra,
            2 => Spec::Want1((g.range_around(-32, 31, 0) as i32, g.range_around(-32, 31, 0) as i32)),
            _ => {
                let mut a = [(0, 0); 4];
                for b in 0..4 {
                    a[b] = (g.range_around(-32, 31, 0) as i32, g.range_around(-32, 31, 0) as i32);
                }
                Spec::Want4(a)
            }
        });
    }
    let form = Form {
        ref_plus: if g.chance(1, 3) { PlusForm::Full } else { PlusForm::Baseline },
        ref_umv: g.chance(1, 3),
        p_plus: *g.pick(&[PlusForm::Baseline, PlusForm::Baseline, PlusForm::Full, PlusForm::Brief]),
        qsel: if g.chance(1, 2) { 0 } else { (g.word() as u64) << 32 | g.word() as u64 },
        stuff: if g.chance(1, 2) { 0 } else { (g.word() as u64) << 32 | g.word() as u64 & g.word() as u64 },
    };
    g.describe(|| json!({"mode": format!("{:?} v{}", mode, version), "size": format!("{:?}", size), "form": format!("{:?}", form), "specs": format!("{:?}", &specs[..specs.len().min(12)])}));
    match run_field_form(mode, version, size, &specs, &form) {
        Err(m) => Verdict::fail(m),
        Ok(s) => {
            let mut key = crate::bits::fnv64(format!("{:?}{:?}{}{:?}", specs, size, version, form).as_bytes());
            key ^= mode as u64;
            let mut l: Labels = vec![if s.four_v > 0 { "has four-vector macroblocks" } else { "one-vector only" }];
            if form.qsel != 0 {
                l.push("macroblock types with quantizer update");
            }
            if form.stuff != 0 {
                l.push("MCBPC stuffing between macroblocks");
            }
            if mode == Mode::Standard {
                l.push(match form.p_plus {
                    PlusForm::Baseline => "standard: baseline PTYPE header",
                    PlusForm::Full => "standard: PLUSPTYPE header restating the modes",
                    PlusForm::Brief => "standard: PLUSPTYPE header restating nothing",
                });
                if form.ref_umv {
                    l.push("standard: reference header had the UMV bit set");
                }
            }
            Verdict::pass_l(s.nonzero_mv > 0, key, l)
        }
    }
}

pub fn run(ctx: &Ctx) -> i32 {
    let mut reports = vec![super::regression_suite(ctx)];
    reports.push(exhaustive_suite(ctx, "predictor_x_differential", 128, &pred_diff_item));
    reports.push(exhaustive_suite(ctx, "four_vector_sums", 253 * 2, &four_sum_item));
    reports.push(exhaustive_suite(ctx, "neighbour_configurations", 27 * 5 * 12, &neighbour_item));
    let cases = ctx.tier.pick(100_000u64, 1_500_000u64);
    reports.push(tape_suite(ctx, "random_vector_fields", cases, 1200, &random_field_case));
    let exhaustive = reports.iter().skip(1).take(3).all(|r| r.exhaustive);
    finish(
        ctx,
        reports,
        Summary {
            rule: "P pictures over a high-entropy intra reference (own DC and five AC coefficients in every block) with *constructed* vector fields: the harness encoder computes the differentials that realise wanted neighbour vectors. Enumerated completely: 64 predictors x 64 differentials per component (both Sorenson versions, and standard mode with baseline / PLUSPTYPE / format-less headers after a reference whose header has the UMV mode bit set or clear - the vectors of a picture that states UMV off wrap whatever came before); INTER / INTER+Q and INTER4V / INTER4V+Q macroblock types throughout; every sum of four vectors -128..124 per component in three decompositions; every neighbour configuration - picture shapes 4x3, 1x3, 3x1, 1x1, 3x3(33x33) macroblocks x every target position x {inter, intra, not coded}^3 neighbours x six vector permutations (each neighbour in turn the median) x one-/four-vector neighbours x three target types. Oracle: C03 model, zero residual, exact equality of all three planes (the chroma planes decide the sixteenth-position rounding). Non-trivial = predictor and differential both non-zero / every sum / every configuration; plus tape-generated random vector fields in all three stream forms.",
            assumptions: vec!["the macroblock under test sits where vectors up to +-16 stay inside the picture for the enumerated pairs, so no two vectors alias through edge clamping".into()],
            exhaustive,
            extra: Map::new(),
        },
    )
}

pub fn replay(suite: &str, case: &Value) -> Option<Verdict> {
    let from_acc = |acc: Acc| match acc.failure {
        Some((_, _, m, _)) => Verdict::fail(m),
        None => Verdict::pass(true, 0),
    };
    let mut acc = Acc::default();
    match suite {
        "predictor_x_differential" => pred_diff_item(case["item"].as_u64()?, &mut acc),
        "four_vector_sums" => four_sum_item(case["item"].as_u64()?, &mut acc),
        "neighbour_configurations" => neighbour_item(case["item"].as_u64()?, &mut acc),
        "random_vector_fields" => return Some(random_field_case(&mut Gen::new(&super::tape_of(case)?))),
        _ => return None,
    }
    Some(from_acc(acc))
}
