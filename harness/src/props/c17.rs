//! C17 - decoding is deterministic and decoder instances are independent.

use super::c01::{gen_history, Step, MAX_AREA};
use crate::bits::fnv64;
use crate::dec::*;
use crate::gen::Gen;
use crate::gen_pic::PicCfg;
use crate::runner::*;
use h263_rs::parser::H263Reader;
use h263_rs::H263State;
use serde_json::{json, Map, Value};
use std::io::Read;
use std::sync::{Arc, Barrier};

/// One decoder instance executing a history call by call.
/// Owned byte source that hands out at most `chunk` bytes per `read` call.
pub struct Frag {
    data: Vec<u8>,
    pos: usize,
    chunk: usize,
    /// every k-th `read` call reports `ErrorKind::Interrupted` instead of delivering (0: never)
    interrupt_every: usize,
    calls: usize,
}

impl Read for Frag {
    fn read(&mut self, buf: &mut [u8]) -> std::io::Result<usize> {
        self.calls += 1;
        if self.interrupt_every >= 2 && self.calls % self.interrupt_every == 0 && self.pos < self.data.len() {
            return Err(std::io::Error::new(std::io::ErrorKind::Interrupted, "interrupted (injected)"));
        }
        let n = buf.len().min(self.chunk).min(self.data.len() - self.pos);
        buf[..n].copy_from_slice(&self.data[self.pos..self.pos + n]);
        self.pos += n;
        Ok(n)
    }
}

pub struct Instance {
    st: H263State,
    steps: Vec<Step>,
    step: usize,
    call: usize,
    reader: Option<H263Reader<Frag>>,
    /// bytes per `read` call of the sources this instance builds (usize::MAX = contiguous)
    pub chunk: usize,
    /// see `Frag::interrupt_every`
    pub interrupt_every: usize,
    pub transcript: Vec<String>,
}

impl Instance {
    pub fn new(opts: u8, steps: &[Step]) -> Instance {
        Instance { st: H263State::new(options_from_bits(opts)), steps: steps.to_vec(), step: 0, call: 0, reader: None, chunk: usize::MAX, interrupt_every: 0, transcript: Vec::new() }
    }

    pub fn done(&self) -> bool {
        self.step >= self.steps.len()
    }

    fn record(&mut self, what: String) {
        let d = last_digest(&self.st);
        self.transcript.push(format!("{}|{:016x}", what, d));
    }

    /// Execute the next call of the history. Returns false when the history is finished.
    pub fn advance(&mut self) -> bool {
        if self.done() {
            return false;
        }
        let (bytes, calls) = match &self.steps[self.step] {
            Step::Cleanup => {
                let r = guard(|| self.st.cleanup_buffers());
                self.record(if r.is_ok() { "cleanup".into() } else { "cleanup PANIC".into() });
                self.step += 1;
                return true;
            }
            Step::Decode(b) => (b.clone(), 1usize),
            Step::Stream(b, c) => (b.clone(), *c),
        };
        if self.reader.is_none() {
            self.reader = Some(H263Reader::from_source(Frag { data: bytes, pos: 0, chunk: self.chunk.max(1), interrupt_every: self.interrupt_every, calls: 0 }));
            self.call = 0;
        }
        let mut reader = self.reader.take().unwrap();
        // memory guard, as in C01
        let area = guard(|| reader.with_lookahead(|r| self.st.parse_picture(r, self.st.get_last_picture().map(|p| p.as_header()))));
        let too_big = match &area {
            Ok(Ok(Some(pic))) => {
                let dims = match pic.format {
                    Some(f) => f.into_width_and_height(),
                    None => self.st.get_last_picture().and_then(|p| p.format().into_width_and_height()),
                };
                dims.map(|(w, h)| w as usize * h as usize > MAX_AREA).unwrap_or(false)
            }
            _ => false,
        };
        let mut finished_step = false;
        if too_big {
            self.record("skipped (size)".into());
            finished_step = true;
        } else {
            let o = decode_call(&mut self.st, &mut reader);
            let ok = o.is_ok();
            self.record(o.short());
            self.call += 1;
            if !ok || self.call >= calls {
                finished_step = true;
            }
        }
        if finished_step {
            self.step += 1;
            self.reader = None;
        } else {
            self.reader = Some(reader);
        }
        true
    }

    pub fn run_all(mut self) -> Vec<String> {
        while self.advance() {}
        self.transcript
    }
}

fn transcript_digest(t: &[String]) -> u64 {
    let mut k = 0xcbf29ce484222325u64;
    for s in t {
        k = crate::bits::fnv64_extend(k, s.as_bytes());
        k = crate::bits::fnv64_extend(k, b"\n");
    }
    k
}

fn group_case(g: &mut Gen, cfg: &PicCfg, collect: Option<&std::sync::Mutex<Vec<(Vec<(u8, Vec<Step>)>, Vec<u64>)>>>) -> Verdict {
    let k = g.range(2, 4) as usize;
    let mut hists = Vec::new();
    let mut first_tape: Vec<u32> = Vec::new();
    let mut twins = 0;
    for j in 0..k {
        if j > 0 && !first_tape.is_empty() && g.chance(1, 3) {
            // a near-twin of the first history: the same generator choices except one to four of
            // them - typically the same options, sizes, picture types and temporal references with
            // different content somewhere. Instances that share anything keyed on such fields
            // would show it here.
            let mut t = first_tape.clone();
            for _ in 0..g.range(1, 4) {
                let pos = g.below(t.len() as u32) as usize;
                t[pos] = g.word();
            }
            let mut g2 = Gen::new(&t);
            let (opts, steps, _) = gen_history(&mut g2, cfg);
            hists.push((opts, steps));
            twins += 1;
            continue;
        }
        let p0 = g.consumed();
        let (opts, steps, _) = gen_history(g, cfg);
        if j == 0 {
            first_tape = g.tape_slice(p0, g.consumed());
        }
        hists.push((opts, steps));
    }
    g.describe(|| json!({"histories": hists.iter().map(|(o, s)| json!({"options": o, "steps": s.len(), "bytes": s.iter().map(|x| match x { Step::Decode(b) => b.len(), Step::Stream(b, _) => b.len(), Step::Cleanup => 0 }).sum::<usize>()})).collect::<Vec<_>>()}));
    // (1) alone
    let alone: Vec<Vec<String>> = hists.iter().map(|(o, s)| Instance::new(*o, s).run_all()).collect();
    // (2) again in the same process, after other work (reverse order)
    for (i, (o, s)) in hists.iter().enumerate().rev() {
        let again = Instance::new(*o, s).run_all();
        if again != alone[i] {
            let at = again.iter().zip(alone[i].iter()).position(|(a, b)| a != b);
            return Verdict::fail(format!("history {} gives a different transcript when run a second time in the same process (first difference at call {:?})", i, at));
        }
    }
    // (2b) the same bytes through a source that fragments its reads (sockets, pipes, chained
    // buffers return short counts): the result is a function of the bytes, not of their delivery
    let chunk = g.range(1, 9) as usize;
    // ... and, every other time, reports ErrorKind::Interrupted on every k-th call (which a reader
    // of a `Read` retries at once)
    let interrupt_every = if g.bool() { g.range(2, 6) as usize } else { 0 };
    for (i, (o, s)) in hists.iter().enumerate() {
        let mut inst = Instance::new(*o, s);
        inst.chunk = chunk;
        inst.interrupt_every = interrupt_every;
        let t = inst.run_all();
        if t != alone[i] {
            let at = t.iter().zip(alone[i].iter()).position(|(a, b)| a != b);
            return Verdict::fail(format!(
                "history {} gives a different transcript when its bytes arrive in reads of at most {} bytes (every {}-th read call interrupted; 0 = none) (first difference at call {:?}: {:?} vs {:?})",
                i, chunk, interrupt_every, at, at.map(|p| t[p].clone()), at.map(|p| alone[i][p].clone())
            ));
        }
    }
    // (3) interleaved call by call on one thread, in a generated order
    let mut inst: Vec<Instance> = hists.iter().map(|(o, s)| Instance::new(*o, s)).collect();
    let mut guard_n = 0;
    while inst.iter().any(|x| !x.done()) {
        let pick = g.below(k as u32) as usize;
        // advance the picked instance, or the next unfinished one
        let mut j = pick;
        for _ in 0..k {
            if !inst[j].done() {
                break;
            }
            j = (j + 1) % k;
        }
        inst[j].advance();
        guard_n += 1;
        if guard_n > 10_000 {
            break;
        }
    }
    for (i, x) in inst.iter().enumerate() {
        if x.transcript != alone[i] {
            let at = x.transcript.iter().zip(alone[i].iter()).position(|(a, b)| a != b);
            return Verdict::fail(format!(
                "history {} of {} gives a different transcript when its calls are interleaved with calls on other decoder instances (first difference at call {:?}: {:?} vs {:?} alone)",
                i,
                k,
                at,
                at.map(|p| x.transcript[p].clone()),
                at.map(|p| alone[i][p].clone())
            ));
        }
    }
    // (4) real threads (every fourth group; thread start-up dominates the cost): 3 replicas of every
    // history, released together by a barrier
    let threaded = g.chance(1, 4);
    if threaded {
        let replicas = 3;
        let barrier = Arc::new(Barrier::new(k * replicas));
        let results: Vec<(usize, Vec<String>)> = std::thread::scope(|s| {
            let mut hs = Vec::new();
            for (i, (o, st)) in hists.iter().enumerate() {
                for _ in 0..replicas {
                    let b = barrier.clone();
                    let (o, st) = (*o, st.clone());
                    hs.push(s.spawn(move || {
                        b.wait();
                        (i, Instance::new(o, &st).run_all())
                    }));
                }
            }
            hs.into_iter().map(|h| h.join().expect("replica thread died")).collect()
        });
        for (i, t) in results {
            if t != alone[i] {
                let at = t.iter().zip(alone[i].iter()).position(|(a, b)| a != b);
                return Verdict::fail(format!("history {} gives a different transcript on a concurrent thread (first difference at call {:?})", i, at));
            }
        }
    }
    let digests: Vec<u64> = alone.iter().map(|t| transcript_digest(t)).collect();
    if let Some(c) = collect {
        let mut v = c.lock().unwrap();
        if v.len() < 400 {
            v.push((hists.clone(), digests.clone()));
        }
    }
    let accepted = alone.iter().map(|t| t.iter().filter(|s| s.starts_with("Ok")).count()).max().unwrap_or(0);
    let rejected = alone.iter().any(|t| t.iter().any(|s| s.starts_with("Err")));
    let key = digests.iter().fold(0u64, |a, d| a.rotate_left(13) ^ d);
    let mut labels: Labels = vec![["2 histories", "3 histories", "4 histories"][k - 2]];
    if threaded {
        labels.push("also run on concurrent threads");
    }
    if twins > 0 {
        labels.push("group contains near-twin histories (same choices except 1-4)");
    }
    if alone.iter().any(|t| t.iter().any(|s| s.starts_with("PANIC"))) {
        labels.push("some call panicked (identically every time; judged by C01)");
    }
    Verdict::pass_l(accepted >= 2 && rejected, key, labels)
}

/// Serialise histories for the second-process comparison.
fn encode_hists(all: &[(Vec<(u8, Vec<Step>)>, Vec<u64>)]) -> Value {
    json!(all
        .iter()
        .map(|(hs, ds)| json!({
            "digests": ds.iter().map(|d| format!("{:016x}", d)).collect::<Vec<_>>(),
            "histories": hs.iter().map(|(o, steps)| json!({
                "opts": o,
                "steps": steps.iter().map(|s| match s {
                    Step::Decode(b) => json!({"d": crate::bits::hex(b)}),
                    Step::Stream(b, c) => json!({"s": crate::bits::hex(b), "c": c}),
                    Step::Cleanup => json!("c"),
                }).collect::<Vec<_>>()
            })).collect::<Vec<_>>()
        }))
        .collect::<Vec<_>>())
}

fn decode_steps(v: &Value) -> Vec<Step> {
    v.as_array()
        .map(|a| {
            a.iter()
                .map(|s| {
                    if let Some(d) = s.get("d") {
                        Step::Decode(crate::bits::unhex(d.as_str().unwrap_or("")))
                    } else if let Some(b) = s.get("s") {
                        Step::Stream(crate::bits::unhex(b.as_str().unwrap_or("")), s["c"].as_u64().unwrap_or(1) as usize)
                    } else {
                        Step::Cleanup
                    }
                })
                .collect()
        })
        .unwrap_or_default()
}

/// Child-process entry: recompute the transcript digests of the histories in `path`; print
/// "MISMATCH <group> <history>" lines for any that differ from the recorded ones.
pub fn child_main(path: &str) -> i32 {
    let text = match std::fs::read_to_string(path) {
        Ok(t) => t,
        Err(_) => return 2,
    };
    let v: Value = match serde_json::from_str(&text) {
        Ok(v) => v,
        Err(_) => return 2,
    };
    let mut bad = 0;
    for (gi, grp) in v.as_array().cloned().unwrap_or_default().iter().enumerate() {
        for (hi, h) in grp["histories"].as_array().cloned().unwrap_or_default().iter().enumerate() {
            let steps = decode_steps(&h["steps"]);
            let t = Instance::new(h["opts"].as_u64().unwrap_or(0) as u8, &steps).run_all();
            let d = format!("{:016x}", transcript_digest(&t));
            if Some(d.as_str()) != grp["digests"][hi].as_str() {
                println!("MISMATCH {} {}", gi, hi);
                bad += 1;
            }
        }
    }
    println!("CHECKED {}", v.as_array().map(|a| a.len()).unwrap_or(0));
    if bad > 0 {
        1
    } else {
        0
    }
}

fn tiny(ptype: crate::syntax::PicType, tr: u8, dc: Option<u8>, w: u8) -> Vec<u8> {
    use crate::syntax::*;
    let mut hdr = Header::sorenson(0, ptype, Size::Custom8(w, 16), 4);
    hdr.tr = tr;
    let n = hdr.mb_dims().map(|(a, b)| a * b).unwrap_or(1);
    let mb = match dc {
        Some(v) => {
            let mut m = Mb::new(MbKind::Intra);
            for b in 0..6 {
                m.blocks[b].dc = v;
            }
            m
        }
        None => Mb::not_coded(),
    };
    encode_pic(&Pic { hdr, mbs: vec![mb; n], trailing_zero_bits: 0 })
}

/// A long history (reference picture, tens of thousands of disposable pictures, then a predicted
/// picture) run alone and run with another instance decoding between every two of its calls: more
/// than 2^16 decode calls in the process, so that any process-wide counter wraps.
fn long_interleaved_suite(n: usize) -> SuiteReport {
    simple_suite("long_interleaved_histories", false, |acc| {
        use crate::syntax::PicType;
        let mut victim_steps: Vec<Step> = vec![Step::Decode(tiny(PicType::I, 3, Some(100), 16))];
        for k in 0..n {
            // mostly intra disposable pictures with values that are never the reference's; every fifth not coded
            victim_steps.push(Step::Decode(tiny(PicType::D, (k % 251) as u8, if k % 5 != 4 { Some(150 + (k * 7 % 90) as u8) } else { None }, 16)));
        }
        victim_steps.push(Step::Decode(tiny(PicType::P, 9, None, 16)));
        let mut other_steps: Vec<Step> = vec![Step::Decode(tiny(PicType::I, 3, Some(50), 32))];
        for k in 0..n {
            other_steps.push(Step::Decode(tiny(if k % 3 == 0 { PicType::D } else { PicType::P }, (k % 7) as u8, if k % 5 == 0 { Some(60 + (k % 100) as u8) } else { None }, 32)));
        }
        other_steps.push(Step::Decode(vec![0xFF; 12]));
        let alone_v = Instance::new(1, &victim_steps).run_all();
        let alone_o = Instance::new(3, &other_steps).run_all();
        // the last picture of the first history is a not-coded P picture: a copy of the flat-100 intra picture
        let flat100 = {
            let mut st = H263State::new(options_from_bits(1));
            let _ = decode_bytes(&mut st, &tiny(PicType::I, 9, Some(100), 16));
            let _ = decode_bytes(&mut st, &tiny(PicType::P, 9, None, 16));
            format!("Ok|{:016x}", last_digest(&st))
        };
        if alone_v.last() != Some(&flat100) {
            acc.fail(json!({"kind":"params","long_interleaved":n}), format!("the predicted picture at the end of the long history is not the copy of its reference: {:?}, expected {}", alone_v.last(), flat100));
            return;
        }
        let mut v = Instance::new(1, &victim_steps);
        let mut o = Instance::new(3, &other_steps);
        // two calls of the other instance between two of the first: a different phase than 1:1
        while !v.done() || !o.done() {
            v.advance();
            o.advance();
            if v.transcript.len() % 3 == 0 {
                o.advance();
            }
        }
        acc.count_n(2 * n as u64 + 4, 2);
        for (name, got, want) in [("first", &v.transcript, &alone_v), ("second", &o.transcript, &alone_o)] {
            if got != want {
                let at = got.iter().zip(want.iter()).position(|(a, b)| a != b);
                acc.fail(
                    json!({"kind":"params","long_interleaved":n}),
                    format!("the {} of two long histories ({} pictures each) differs when its calls alternate with the other instance's (first difference at call {:?}: {:?} vs {:?} alone)", name, n + 2, at, at.map(|p| got[p].clone()), at.map(|p| want[p].clone())),
                );
                return;
            }
        }
        // the last picture of the first history must be the copy of its reference (flat 100)
        let last = alone_v.last().cloned().unwrap_or_default();
        if !last.starts_with("Ok") {
            acc.fail(json!({"kind":"params","long_interleaved":n}), format!("last call of the long history gave {}", last));
            return;
        }
        acc.sample(|| json!({"histories": 2, "pictures_each": n + 2, "schedule": "strict alternation of calls on one thread"}));
    })
}

/// Small histories that between them use every quantizer 1..31, both modes, intra and predicted
/// pictures, short and escape-coded coefficients and non-zero vectors: whatever the code under
/// test builds lazily at first use is first used by one of them.
fn first_use_histories() -> Vec<(u8, Vec<Step>)> {
    use crate::syntax::*;
    let mut out = Vec::new();
    for q in 1..=31u8 {
        let sorenson = q % 3 != 0;
        let version = q % 2;
        let size = if sorenson { Size::Custom8(32, 16) } else { Size::Sqcif };
        let mk = |t: PicType, tr: u8| -> Vec<u8> {
            let mut hdr = if sorenson { Header::sorenson(version, t, size, q) } else { Header::standard(t, size, q) };
            hdr.tr = tr;
            let n = hdr.mb_dims().map(|(a, b)| a * b).unwrap_or(1);
            let mut mbs = Vec::new();
            for k in 0..n {
                let mut mb = if t == PicType::I || k % 3 == 0 { Mb::new(MbKind::Intra) } else { Mb::new(MbKind::Inter) };
                if mb.kind == MbKind::Inter {
                    mb.mvd[0] = ((k % 7) as i8 - 3, (q % 5) as i8 - 2);
                }
                for b in 0..6 {
                    mb.blocks[b].dc = 40 + ((k * 7 + b * 13 + q as usize) % 170) as u8;
                    if mb.blocks[b].dc == 128 {
                        mb.blocks[b].dc = 129;
                    }
                    let lvl = 1 + ((k + b + q as usize) % 9) as i16;
                    mb.blocks[b].events = vec![
                        Event { run: (b % 4) as u8, level: if k % 2 == 0 { lvl } else { -lvl }, force_escape: false, wide: false },
                        Event { run: 1, level: 40 + q as i16, force_escape: true, wide: sorenson && version == 1 && b % 2 == 0 },
                    ];
                }
                mbs.push(mb);
            }
            encode_pic(&Pic { hdr, mbs, trailing_zero_bits: 0 })
        };
        out.push((if sorenson { 1u8 } else { 0u8 }, vec![Step::Decode(mk(PicType::I, q)), Step::Decode(mk(PicType::P, q.wrapping_add(1)))]));
    }
    out
}

/// Child-process entry for the cold-start relation: the very first thing this process does with
/// the code under test is to run every history of `path` on `threads` threads released together,
/// all in the same order (so they collide on every first use); digests must equal the recorded ones.
pub fn cold_main(path: &str, threads: usize) -> i32 {
    let text = match std::fs::read_to_string(path) {
        Ok(t) => t,
        Err(_) => return 2,
    };
    let v: Value = match serde_json::from_str(&text) {
        Ok(v) => v,
        Err(_) => return 2,
    };
    let mut work: Vec<(usize, usize, u8, Vec<Step>, String)> = Vec::new();
    for (gi, grp) in v.as_array().cloned().unwrap_or_default().iter().enumerate() {
        for (hi, h) in grp["histories"].as_array().cloned().unwrap_or_default().iter().enumerate() {
            work.push((gi, hi, h["opts"].as_u64().unwrap_or(0) as u8, decode_steps(&h["steps"]), grp["digests"][hi].as_str().unwrap_or("").to_string()));
        }
    }
    let work = std::sync::Arc::new(work);
    let go = std::sync::Arc::new(std::sync::atomic::AtomicBool::new(false));
    let ready = std::sync::Arc::new(std::sync::atomic::AtomicUsize::new(0));
    let mut handles = Vec::new();
    let arrived: std::sync::Arc<Vec<std::sync::atomic::AtomicUsize>> = std::sync::Arc::new((0..work.len()).map(|_| std::sync::atomic::AtomicUsize::new(0)).collect());
    for t in 0..threads {
        let (work, go, ready, arrived) = (work.clone(), go.clone(), ready.clone(), arrived.clone());
        handles.push(std::thread::spawn(move || {
            ready.fetch_add(1, std::sync::atomic::Ordering::SeqCst);
            while !go.load(std::sync::atomic::Ordering::Acquire) {
                std::hint::spin_loop();
            }
            let mut bad = Vec::new();
            for (k, (gi, hi, opts, steps, want)) in work.iter().enumerate() {
                // every history starts on all threads at once (spinning rendezvous), so that the
                // threads reach whatever this history uses for the first time within nanoseconds
                arrived[k].fetch_add(1, std::sync::atomic::Ordering::AcqRel);
                let t0 = std::time::Instant::now();
                while arrived[k].load(std::sync::atomic::Ordering::Acquire) < threads {
                    std::hint::spin_loop();
                    if t0.elapsed().as_secs() > 20 {
                        break; // a thread died: go on alone
                    }
                }
                let tr = Instance::new(*opts, steps).run_all();
                let d = format!("{:016x}", transcript_digest(&tr));
                if &d != want {
                    bad.push((*gi, *hi, t));
                }
            }
            bad
        }));
    }
    while ready.load(std::sync::atomic::Ordering::SeqCst) < threads {
        std::thread::yield_now();
    }
    go.store(true, std::sync::atomic::Ordering::Release);
    let mut bad = 0;
    for h in handles {
        match h.join() {
            Ok(b) => {
                for (gi, hi, t) in b {
                    println!("MISMATCH {} {} thread {}", gi, hi, t);
                    bad += 1;
                }
            }
            Err(_) => {
                println!("MISMATCH 0 0 thread panicked");
                bad += 1;
            }
        }
    }
    println!("CHECKED {}", work.len());
    if bad > 0 {
        1
    } else {
        0
    }
}

/// (6) cold start: fresh processes whose first use of the code under test happens on many threads
/// at once. Anything built lazily at first use (tables, caches) is built under contention here, and
/// every thread must still produce the transcripts this (long warmed-up) process produces.
fn cold_start_suite(ctx: &Ctx, extra: &[(Vec<(u8, Vec<Step>)>, Vec<u64>)], processes: usize) -> SuiteReport {
    let mut rep = SuiteReport { name: "cold_start_on_many_threads".into(), ..Default::default() };
    let mut all: Vec<(Vec<(u8, Vec<Step>)>, Vec<u64>)> = Vec::new();
    for (o, s) in first_use_histories() {
        let d = transcript_digest(&Instance::new(o, &s).run_all());
        all.push((vec![(o, s)], vec![d]));
    }
    all.extend(extra.iter().take(40).cloned());
    let dir = ctx.root.join("harness").join("target").join("tmp");
    let _ = std::fs::create_dir_all(&dir);
    let path = dir.join(format!("c17-cold-{}-{}.json", std::process::id(), ctx.seed));
    if std::fs::write(&path, serde_json::to_string(&encode_hists(&all)).unwrap()).is_err() {
        rep.notes.push("could not write the history file; not judged".into());
        return rep;
    }
    let threads = ctx.threads.clamp(2, 16);
    for p in 0..processes {
        let out = std::process::Command::new(std::env::current_exe().unwrap()).arg("c17-cold").arg(&path).arg(threads.to_string()).output();
        match out {
            Ok(o) => {
                let text = String::from_utf8_lossy(&o.stdout).to_string();
                if let Some(line) = text.lines().find(|l| l.starts_with("MISMATCH")) {
                    let parts: Vec<usize> = line.split_whitespace().skip(1).filter_map(|x| x.parse().ok()).collect();
                    let (gi, hi) = (parts.first().copied().unwrap_or(0), parts.get(1).copied().unwrap_or(0));
                    let n_bad = text.lines().filter(|l| l.starts_with("MISMATCH")).count();
                    let one = vec![(vec![all[gi].0[hi].clone()], vec![all[gi].1[hi]])];
                    rep.failure = Some(Failure {
                        suite: "cold_start_on_many_threads".into(),
                        msg: format!(
                            "fresh process #{}: {} threads started together, each decoding the same {} histories as its first work - {} transcripts differ from the ones computed in the warmed-up process (first: history {} of group {}; {})",
                            p, threads, all.len(), n_bad, hi, gi, line
                        ),
                        signature: None,
                        case: json!({"kind": "params", "cold_group": encode_hists(&one), "threads": threads}),
                        description: None,
                    });
                    break;
                } else if !text.contains("CHECKED") {
                    rep.notes.push(format!("cold-start process did not report (exit {:?}); not judged", o.status.code()));
                } else {
                    rep.evaluations += (all.len() * threads) as u64;
                    rep.distinct_nontrivial += all.len() as u64;
                }
            }
            Err(e) => rep.notes.push(format!("could not start a cold-start process: {}", e)),
        }
    }
    let _ = std::fs::remove_file(&path);
    rep.samples.push(json!({"fresh_processes": processes, "threads_each": threads, "histories": all.len(), "of_which_first_use_histories (every quantizer, both modes)": 31}));
    rep
}

/// (7) heavy use: tens of thousands of decode attempts of pictures with the largest and oddest
/// dimensions (header and a little data each - they fail after their buffers were set up) on many
/// decoders and threads; afterwards a fresh decoder must decode an ordinary picture exactly as
/// one did when the process started. Whatever the attempts left behind process-wide, no later
/// instance may notice it.
fn heavy_use_suite(ctx: &Ctx, attempts: usize) -> SuiteReport {
    let threads = ctx.threads.clamp(1, 16);
    simple_suite("fresh_instance_after_heavy_use", false, move |acc| {
        use crate::syntax::*;
        let probe = || -> Vec<String> {
            let mut out = Vec::new();
            for (o, s) in first_use_histories().into_iter().take(6) {
                out.extend(Instance::new(o, &s).run_all());
            }
            let cif = super::c13::cheap_intra(Mode::Sorenson, 0, Size::Cif, 6, 5);
            out.extend(Instance::new(1, &[Step::Decode(encode_pic(&cif))]).run_all());
            out
        };
        let before = probe();
        let sizes: [(u16, u16); 6] = [(65535, 1), (1, 65535), (65533, 3), (3, 65533), (32767, 3), (16383, 7)];
        let per_thread = attempts / threads;
        let handles: Vec<_> = (0..threads)
            .map(|t| {
                std::thread::spawn(move || {
                    let mut errs = 0usize;
                    let mut st = H263State::new(options_from_bits(1));
                    for k in 0..per_thread {
                        let (w, h) = sizes[(k + t) % sizes.len()];
                        let mut hdr = Header::sorenson((k % 2) as u8, PicType::I, Size::Custom16(w, h), 1 + (k % 31) as u8);
                        hdr.tr = k as u8;
                        let mut mb = Mb::new(MbKind::Intra);
                        for b in 0..6 {
                            mb.blocks[b].dc = 90;
                        }
                        // one macroblock of thousands: the data ends, the rest would need a reference
                        let bytes = encode_pic(&Pic { hdr, mbs: vec![mb], trailing_zero_bits: 0 });
                        if k % 97 == 0 {
                            st = H263State::new(options_from_bits(1));
                        }
                        if !decode_bytes(&mut st, &bytes).is_ok() {
                            errs += 1;
                        }
                    }
                    errs
                })
            })
            .collect();
        let mut rejected = 0;
        for h in handles {
            rejected += h.join().unwrap_or(0);
        }
        acc.count_n((per_thread * threads) as u64, 2);
        let after = probe();
        if after != before {
            let at = after.iter().zip(before.iter()).position(|(a, b)| a != b);
            acc.fail(
                json!({"kind":"params","heavy_use":attempts}),
                format!(
                    "after {} decode attempts of 65535x1-class pictures on {} threads ({} rejected), fresh decoders no longer behave as at process start: call {:?} gives {:?}, gave {:?} before",
                    per_thread * threads, threads, rejected, at, at.map(|p| after[p].clone()), at.map(|p| before[p].clone())
                ),
            );
            return;
        }
        acc.sample(|| json!({"attempts": per_thread * threads, "threads": threads, "rejected": rejected, "sizes": format!("{:?}", sizes), "probe": "6 two-picture histories + one CIF picture on fresh decoders, before and after"}));
    })
}

/// Two-picture histories in standard mode whose predicted picture is in Unrestricted Motion Vector
/// mode with a limited range (PLUSPTYPE, UUI = "1"): the vector range then depends on the picture
/// size class (Tables D.1 / D.2: widths up to 352, 704, 1408, beyond). One history per class.
fn umv_class_histories() -> Vec<(u8, Vec<Step>)> {
    use crate::bits::BitWriter;
    use crate::hdr::*;
    use crate::syntax::*;
    let mut out = Vec::new();
    for (k, w) in [64usize, 400, 800, 1500].iter().enumerate() {
        let size = Size::StdCustom(*w as u16, 16);
        let mut ipic = super::c13::cheap_intra(Mode::Standard, 0, size, 6, 3 + k);
        ipic.hdr.plus = PlusForm::Full;
        let mut p = base_plus();
        p.opp = Opp::from_mode_bits(6, false, 1 << 9);
        p.cpfmt = Cpfmt { par: 2, pwi: (*w / 4 - 1) as u16, marker: true, phi: 4, epar: (1, 1) };
        p.uui = Uui::Limited;
        p.ptype_code = 1;
        let mut h = base_header(Kind::Plus(p));
        h.tr = 40 + k as u8;
        h.quant = 7;
        let mut bw = BitWriter::new();
        h.write(false, &Inherited::default(), &mut bw);
        let mbs = (*w + 15) / 16;
        for i in 0..mbs {
            bw.put_bit(false); // COD
            bw.put_code("1"); // MCBPC: INTER, no chroma
            bw.put_code("11"); // CBPY (inter sense): no luma
            // differentials that carry the vectors beyond +-16 samples in both directions
            let v = [70i32, -66, 35, -90, 120, -31, 64, -64][(i + k) % 8];
            crate::hostile::put_umv(&mut bw, v);
            crate::hostile::put_umv(&mut bw, [3i32, -2, 0, 5][(i + k) % 4]);
        }
        out.push((0u8, vec![Step::Decode(encode_pic(&ipic)), Step::Decode(bw.to_bytes())]));
    }
    out
}

/// (9) concurrent hammering: every thread decodes its *own* history over and over while the other
/// threads decode theirs (histories of every quantizer and mode, and UMV pictures of every size
/// class); each repetition must give the transcript the history gives alone. Anything process-wide
/// that one decode call writes and reads back later in the same call is overwritten by the other
/// threads' pictures here within microseconds.
fn hammer_suite(ctx: &Ctx, iterations: usize) -> SuiteReport {
    let threads = ctx.threads.clamp(2, 8);
    simple_suite("different_streams_hammered_concurrently", false, move |acc| {
        let mut hists = umv_class_histories();
        hists.extend(first_use_histories().into_iter().step_by(3));
        let alone: Vec<u64> = hists.iter().map(|(o, s)| transcript_digest(&Instance::new(*o, s).run_all())).collect();
        let hists = std::sync::Arc::new(hists);
        let alone = std::sync::Arc::new(alone);
        let rounds = (hists.len() + threads - 1) / threads;
        for round in 0..rounds.max(1) * 2 {
            let stop = std::sync::Arc::new(std::sync::atomic::AtomicBool::new(false));
            let handles: Vec<_> = (0..threads)
                .map(|t| {
                    let (hists, alone, stop) = (hists.clone(), alone.clone(), stop.clone());
                    // second half of the rounds: another pairing of histories and threads
                    let idx = if round < rounds { (round * threads + t) % hists.len() } else { (t * rounds + round) % hists.len() };
                    std::thread::spawn(move || {
                        let (o, s) = &hists[idx];
                        for it in 0..iterations {
                            if stop.load(std::sync::atomic::Ordering::Relaxed) {
                                break;
                            }
                            let d = transcript_digest(&Instance::new(*o, s).run_all());
                            if d != alone[idx] {
                                stop.store(true, std::sync::atomic::Ordering::Relaxed);
                                return Some((idx, it));
                            }
                        }
                        None
                    })
                })
                .collect();
            for h in handles {
                if let Ok(Some((idx, it))) = h.join() {
                    acc.fail(
                        json!({"kind":"params","hammer":iterations}),
                        format!("history {} ({}), decoded over and over on its own thread while {} other threads decode other histories, gave another transcript than alone at repetition {}", idx, if idx < 4 { "UMV picture, limited range, one of four size classes" } else { "two pictures at one quantizer" }, threads - 1, it),
                    );
                    return;
                }
            }
            acc.count_n((threads * iterations) as u64, threads as u64);
        }
        acc.sample(|| json!({"threads": threads, "histories": hists.len(), "repetitions_per_thread_and_round": iterations, "rounds": rounds * 2}));
    })
}

/// A source that hands out `first` bytes, then blocks inside `read` until released.
struct Gate {
    data: Vec<u8>,
    pos: usize,
    first: usize,
    state: std::sync::Arc<(std::sync::Mutex<(bool, bool)>, std::sync::Condvar)>, // (blocked, released)
}

impl Read for Gate {
    fn read(&mut self, buf: &mut [u8]) -> std::io::Result<usize> {
        if self.pos >= self.first {
            let (m, cv) = &*self.state;
            let mut g = m.lock().unwrap();
            if !g.1 {
                g.0 = true;
                cv.notify_all();
                while !g.1 {
                    g = cv.wait(g).unwrap();
                }
            }
        }
        let lim = if self.pos < self.first { self.first - self.pos } else { usize::MAX };
        let n = buf.len().min(self.data.len() - self.pos).min(lim);
        buf[..n].copy_from_slice(&self.data[self.pos..self.pos + n]);
        self.pos += n;
        Ok(n)
    }
}

/// (8) a decoder whose source is waiting for data (a pipe, a socket) must not hold up another
/// decoder. Instance X decodes from a source that blocks inside `read` after k bytes; while it is
/// blocked, instance Y decodes a picture on another thread and must finish; then X is released and
/// must finish with its own result. Y is given 30 s (it needs microseconds); only a stall that
/// repeats in a second attempt is reported.
fn blocked_source_suite() -> SuiteReport {
    simple_suite("instance_with_a_waiting_source", false, |acc| {
        use crate::syntax::*;
        use std::sync::mpsc;
        use std::time::Duration;
        let x_pic = encode_pic(&super::c13::cheap_intra(Mode::Sorenson, 1, Size::Custom8(48, 32), 7, 2));
        let y_pic = encode_pic(&super::c13::cheap_intra(Mode::Standard, 0, Size::Sqcif, 9, 4));
        let x_want = Instance::new(1, &[Step::Decode(x_pic.clone())]).run_all();
        let y_want = Instance::new(0, &[Step::Decode(y_pic.clone())]).run_all();
        let attempt = |first: usize| -> Result<bool, String> {
            let state = std::sync::Arc::new((std::sync::Mutex::new((false, false)), std::sync::Condvar::new()));
            let src = Gate { data: x_pic.clone(), pos: 0, first, state: state.clone() };
            let (xtx, xrx) = mpsc::channel();
            let xh = std::thread::spawn(move || {
                let mut st = H263State::new(options_from_bits(1));
                let mut r = H263Reader::from_source(src);
                let o = decode_call(&mut st, &mut r);
                let _ = xtx.send(format!("{}|{:016x}", o.short(), last_digest(&st)));
            });
            // wait until X is blocked inside its source
            {
                let (m, cv) = &*state;
                let mut g = m.lock().unwrap();
                let t0 = std::time::Instant::now();
                while !g.0 {
                    let (g2, _) = cv.wait_timeout(g, Duration::from_millis(200)).unwrap();
                    g = g2;
                    if t0.elapsed() > Duration::from_secs(30) {
                        g.1 = true;
                        cv.notify_all();
                        drop(g);
                        let _ = xh.join();
                        return Err("instance X never reached its source's waiting point".into());
                    }
                }
            }
            let (ytx, yrx) = mpsc::channel();
            let yp = y_pic.clone();
            let yh = std::thread::spawn(move || {
                let t = Instance::new(0, &[Step::Decode(yp)]).run_all();
                let _ = ytx.send(t);
            });
            let y_got = yrx.recv_timeout(Duration::from_secs(30));
            // release X whatever happened
            {
                let (m, cv) = &*state;
                let mut g = m.lock().unwrap();
                g.1 = true;
                cv.notify_all();
            }
            let x_got = xrx.recv_timeout(Duration::from_secs(60));
            let _ = xh.join();
            let _ = yh.join();
            match y_got {
                Err(_) => return Ok(false), // Y stalled while X was waiting
                Ok(t) => {
                    if t != y_want {
                        return Err(format!("instance Y decoded {:?} while instance X was waiting for its source; alone it gives {:?}", t, y_want));
                    }
                }
            }
            match x_got {
                Ok(s) => {
                    if vec![s.clone()] != x_want {
                        return Err(format!("instance X, released after waiting {} bytes into its picture, gave {:?}; without the wait {:?}", first, s, x_want));
                    }
                }
                Err(_) => return Err("instance X did not finish within 60 s of being released".into()),
            }
            Ok(true)
        };
        let points: Vec<usize> = (0..x_pic.len()).step_by((x_pic.len() / 12).max(1)).collect();
        for first in points.iter() {
            acc.count(true);
            let r = match attempt(*first) {
                Ok(false) => attempt(*first).and_then(|again| if again { Ok(()) } else { Err(format!("while instance X was waiting inside its source's read() {} bytes into a picture, instance Y (another decoder, another thread, its own in-memory source) did not finish decoding one sub-QCIF picture within 30 s - twice in a row", first)) }),
                Ok(true) => Ok(()),
                Err(m) => Err(m),
            };
            if let Err(m) = r {
                acc.fail(json!({"kind":"params","waiting_source":first}), m);
                return;
            }
        }
        acc.sample(|| json!({"waiting_points_bytes_into_picture": points, "picture_bytes": x_pic.len()}));
    })
}

pub fn cfg_for(tier: Tier) -> PicCfg {
    match tier {
        Tier::Quick => PicCfg { max_dim: 64, max_fixed_mbs: 396, budget: 400, extreme_aspect: false, ..PicCfg::quick() },
        Tier::Thorough => PicCfg { max_dim: 128, max_fixed_mbs: 396, budget: 600, ..PicCfg::thorough() },
    }
}

pub fn run(ctx: &Ctx) -> i32 {
    let cfg = cfg_for(ctx.tier);
    let mut reports = vec![super::regression_suite(ctx)];
    // textual assumption check: safe Rust only in the three crates
    reports.push(simple_suite("no_unsafe_no_static_mut", true, |acc| {
        for dir in ["/repo/h263/src", "/repo/yuv/src", "/repo/deblock/src"] {
            let mut stack = vec![std::path::PathBuf::from(dir)];
            while let Some(d) = stack.pop() {
                for e in std::fs::read_dir(&d).into_iter().flatten().flatten() {
                    let p = e.path();
                    if p.is_dir() {
                        stack.push(p);
                    } else if p.extension().and_then(|x| x.to_str()) == Some("rs") {
                        let text = std::fs::read_to_string(&p).unwrap_or_default();
                        acc.count(true);
                        for (ln, line) in text.lines().enumerate() {
                            let code = line.split("//").next().unwrap_or("");
                            if code.contains("unsafe ") || code.contains("unsafe{") || code.contains("static mut") || code.contains("thread_local!") {
                                acc.label("files with unsafe / static mut / thread_local (informational)");
                                let _ = ln;
                            }
                        }
                    }
                }
            }
        }
        acc.sample(|| json!({"scanned": ["/repo/h263/src", "/repo/yuv/src", "/repo/deblock/src"], "looked_for": ["unsafe", "static mut", "thread_local!"]}));
    }));
    reports.push(long_interleaved_suite(ctx.tier.pick(40_000usize, 140_000usize)));
    let collected = std::sync::Mutex::new(Vec::new());
    let cases = ctx.tier.pick(25_000u64, 500_000u64);
    {
        let c = &collected;
        reports.push(tape_suite(ctx, "history_groups", cases, 16_384, &move |g| group_case(g, &cfg, Some(c))));
    }
    // (5) second process
    let all = collected.into_inner().unwrap();
    let mut rep = SuiteReport { name: "second_process".into(), ..Default::default() };
    if !all.is_empty() && reports.iter().all(|r| r.failure.is_none()) {
        let dir = ctx.root.join("harness").join("target").join("tmp");
        let _ = std::fs::create_dir_all(&dir);
        let path = dir.join(format!("c17-{}-{}.json", std::process::id(), ctx.seed));
        std::fs::write(&path, serde_json::to_string(&encode_hists(&all)).unwrap()).expect("write");
        let out = std::process::Command::new(std::env::current_exe().unwrap()).arg("c17-child").arg(&path).output();
        match out {
            Ok(o) => {
                let text = String::from_utf8_lossy(&o.stdout).to_string();
                rep.evaluations = all.iter().map(|(h, _)| h.len() as u64).sum();
                rep.distinct_nontrivial = rep.evaluations;
                if let Some(line) = text.lines().find(|l| l.starts_with("MISMATCH")) {
                    let parts: Vec<usize> = line.split_whitespace().skip(1).filter_map(|x| x.parse().ok()).collect();
                    let (gi, hi) = (parts[0], parts[1]);
                    let one = vec![(vec![all[gi].0[hi].clone()], vec![all[gi].1[hi]])];
                    rep.failure = Some(Failure {
                        suite: "second_process".into(),
                        msg: format!("history {} of group {} gives a different transcript in a second process", hi, gi),
                        signature: None,
                        case: json!({"kind": "params", "group": encode_hists(&one)}),
                        description: None,
                    });
                } else if !text.contains("CHECKED") {
                    rep.notes.push(format!("second process did not report (exit {:?}); not judged", o.status.code()));
                }
                rep.samples.push(json!({"groups_recomputed_in_second_process": all.len()}));
            }
            Err(e) => rep.notes.push(format!("could not start second process: {}", e)),
        }
        let _ = std::fs::remove_file(&path);
    }
    reports.push(rep);
    if reports.iter().all(|r| r.failure.is_none()) {
        reports.push(cold_start_suite(ctx, &all, ctx.tier.pick(12usize, 60usize)));
        reports.push(heavy_use_suite(ctx, ctx.tier.pick(48_000usize, 200_000usize)));
        reports.push(blocked_source_suite());
        reports.push(hammer_suite(ctx, ctx.tier.pick(400usize, 5000usize)));
    }
    finish(
        ctx,
        reports,
        Summary {
            rule: "Groups of 2..4 histories from the C01 generator (valid, hostile and corrupted data; own readers, streams, clean-ups; all four option sets). The transcript of a history (per call: result and digest of get_last_picture()) must be identical when it is run (1) alone, (2) again in the same process after other work and through a source that delivers the same bytes in reads of 1..9 bytes, (3) with its calls interleaved with calls on the other instances in a tape-generated order on one thread, (4) for every fourth group, on 3 replicas x k real threads released together by a barrier, (5) in a second process (up to 400 groups per run are recomputed by a child process), (6) in fresh processes whose first work is to decode on up to 16 threads released together (31 histories using every quantizer in both modes, plus 40 generated groups): cold_start_on_many_threads; (7) fresh decoders behave as at process start after tens of thousands of decode attempts of 65535x1-class pictures on many threads: fresh_instance_after_heavy_use; (8) a decoder blocked inside its source's read() does not hold up another decoder on another thread: instance_with_a_waiting_source; (9) every thread decodes its own history over and over while the others decode theirs (every quantizer and mode; UMV pictures of all four size classes): different_streams_hammered_concurrently. Non-trivial = a history with >= 2 accepted and >= 1 rejected call; distinct by transcript digests.",
            assumptions: vec![
                "the harness owns call-level interleaving; instruction-level interleaving inside a call is left to the OS scheduler (safe Rust rules out data races; the scan for unsafe / static mut / thread_local is reported under no_unsafe_no_static_mut)".into(),
            ],
            exhaustive: false,
            extra: Map::new(),
        },
    )
}

pub fn replay(suite: &str, case: &Value) -> Option<Verdict> {
    match suite {
        "history_groups" => {
            let tier = if case["tier"].as_str() == Some("thorough") { Tier::Thorough } else { Tier::Quick };
            Some(group_case(&mut Gen::new(&super::tape_of(case)?), &cfg_for(tier), None))
        }
        "long_interleaved_histories" => Some(match long_interleaved_suite(case["long_interleaved"].as_u64()? as usize).failure {
            Some(f) => Verdict::fail(f.msg),
            None => Verdict::pass(true, 0),
        }),
        "fresh_instance_after_heavy_use" => {
            let ctx = Ctx::new("C17", Tier::Quick, 1);
            Some(match heavy_use_suite(&ctx, case["heavy_use"].as_u64()? as usize).failure {
                Some(f) => Verdict::fail(f.msg),
                None => Verdict::pass(true, 0),
            })
        }
        "different_streams_hammered_concurrently" => {
            let ctx = Ctx::new("C17", Tier::Quick, 1);
            Some(match hammer_suite(&ctx, case["hammer"].as_u64().unwrap_or(400) as usize * 5).failure {
                Some(f) => Verdict::fail(f.msg),
                None => Verdict::pass(true, 0),
            })
        }
        "instance_with_a_waiting_source" => Some(match blocked_source_suite().failure {
            Some(f) => Verdict::fail(f.msg),
            None => Verdict::pass(true, 0),
        }),
        "cold_start_on_many_threads" => {
            // the recorded group, in up to 20 fresh processes
            let threads = case["threads"].as_u64().unwrap_or(16) as usize;
            let dir = std::env::temp_dir();
            let path = dir.join(format!("c17-cold-replay-{}.json", std::process::id()));
            std::fs::write(&path, serde_json::to_string(&case["cold_group"]).ok()?).ok()?;
            let mut verdict = Verdict::pass(true, 0);
            for _ in 0..20 {
                let out = std::process::Command::new(std::env::current_exe().ok()?).arg("c17-cold").arg(&path).arg(threads.to_string()).output().ok()?;
                let text = String::from_utf8_lossy(&out.stdout).to_string();
                if let Some(l) = text.lines().find(|l| l.starts_with("MISMATCH")) {
                    verdict = Verdict::fail(format!("a fresh process decoding the recorded history on {} threads at once gives another transcript than recorded ({})", threads, l));
                    break;
                }
            }
            let _ = std::fs::remove_file(&path);
            Some(verdict)
        }
        "second_process" => {
            // recompute here (this IS another process than the one that recorded the digest)
            let grp = &case["group"][0];
            let h = &grp["histories"][0];
            let steps = decode_steps(&h["steps"]);
            let t = Instance::new(h["opts"].as_u64().unwrap_or(0) as u8, &steps).run_all();
            let d = format!("{:016x}", transcript_digest(&t));
            Some(if Some(d.as_str()) == grp["digests"][0].as_str() { Verdict::pass(true, fnv64(d.as_bytes())) } else { Verdict::fail("transcript differs from the recorded one") })
        }
        _ => None,
    }
}
