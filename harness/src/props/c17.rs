//! C17 - decoding is deterministic and decoder instances are independent.

use super::c01::{gen_history, Step, MAX_AREA};
use crate::bits::fnv64;
use crate::dec::*;
use crate::gen::Gen;
use crate::gen_pic::PicCfg;
use crate::runner::*;
use h263_rs::parser::H263Reader;
use h263_rs::H263State;
use serde_json::{json, Map, Value};
use std::io::Read;
use std::sync::{Arc, Barrier};

/// One decoder instance executing a history call by call.
/// Owned byte source that hands out at most `chunk` bytes per `read` call.
pub struct Frag {
    data: Vec<u8>,
    pos: usize,
    chunk: usize,
}

impl Read for Frag {
    fn read(&mut self, buf: &mut [u8]) -> std::io::Result<usize> {
        let n = buf.len().min(self.chunk).min(self.data.len() - self.pos);
        buf[..n].copy_from_slice(&self.data[self.pos..self.pos + n]);
        self.pos += n;
        Ok(n)
    }
}

pub struct Instance {
    st: H263State,
    steps: Vec<Step>,
    step: usize,
    call: usize,
    reader: Option<H263Reader<Frag>>,
    /// bytes per `read` call of the sources this instance builds (usize::MAX = contiguous)
    pub chunk: usize,
    pub transcript: Vec<String>,
}

impl Instance {
    pub fn new(opts: u8, steps: &[Step]) -> Instance {
        Instance { st: H263State::new(options_from_bits(opts)), steps: steps.to_vec(), step: 0, call: 0, reader: None, chunk: usize::MAX, transcript: Vec::new() }
    }

    pub fn done(&self) -> bool {
        self.step >= self.steps.len()
    }

    fn record(&mut self, what: String) {
        let d = last_digest(&self.st);
        self.transcript.push(format!("{}|{:016x}", what, d));
    }

    /// Execute the next call of the history. Returns false when the history is finished.
    pub fn advance(&mut self) -> bool {
        if self.done() {
            return false;
        }
        let (bytes, calls) = match &self.steps[self.step] {
            Step::Cleanup => {
                let r = guard(|| self.st.cleanup_buffers());
                self.record(if r.is_ok() { "cleanup".into() } else { "cleanup PANIC".into() });
                self.step += 1;
                return true;
            }
            Step::Decode(b) => (b.clone(), 1usize),
            Step::Stream(b, c) => (b.clone(), *c),
        };
        if self.reader.is_none() {
            self.reader = Some(H263Reader::from_source(Frag { data: bytes, pos: 0, chunk: self.chunk.max(1) }));
            self.call = 0;
        }
        let mut reader = self.reader.take().unwrap();
        // memory guard, as in C01
        let area = guard(|| reader.with_lookahead(|r| self.st.parse_picture(r, self.st.get_last_picture().map(|p| p.as_header()))));
        let too_big = match &area {
            Ok(Ok(Some(pic))) => {
                let dims = match pic.format {
                    Some(f) => f.into_width_and_height(),
                    None => self.st.get_last_picture().and_then(|p| p.format().into_width_and_height()),
                };
                dims.map(|(w, h)| w as usize * h as usize > MAX_AREA).unwrap_or(false)
            }
            _ => false,
        };
        let mut finished_step = false;
        if too_big {
            self.record("skipped (size)".into());
            finished_step = true;
        } else {
            let o = decode_call(&mut self.st, &mut reader);
            let ok = o.is_ok();
            self.record(o.short());
            self.call += 1;
            if !ok || self.call >= calls {
                finished_step = true;
            }
        }
        if finished_step {
            self.step += 1;
            self.reader = None;
        } else {
            self.reader = Some(reader);
        }
        true
    }

    pub fn run_all(mut self) -> Vec<String> {
        while self.advance() {}
        self.transcript
    }
}

fn transcript_digest(t: &[String]) -> u64 {
    let mut k = 0xcbf29ce484222325u64;
    for s in t {
        k = crate::bits::fnv64_extend(k, s.as_bytes());
        k = crate::bits::fnv64_extend(k, b"\n");
    }
    k
}

fn group_case(g: &mut Gen, cfg: &PicCfg, collect: Option<&std::sync::Mutex<Vec<(Vec<(u8, Vec<Step>)>, Vec<u64>)>>>) -> Verdict {
    let k = g.range(2, 4) as usize;
    let mut hists = Vec::new();
    for _ in 0..k {
        let (opts, steps, _) = gen_history(g, cfg);
        hists.push((opts, steps));
    }
    g.describe(|| json!({"histories": hists.iter().map(|(o, s)| json!({"options": o, "steps": s.len(), "bytes": s.iter().map(|x| match x { Step::Decode(b) => b.len(), Step::Stream(b, _) => b.len(), Step::Cleanup => 0 }).sum::<usize>()})).collect::<Vec<_>>()}));
    // (1) alone
    let alone: Vec<Vec<String>> = hists.iter().map(|(o, s)| Instance::new(*o, s).run_all()).collect();
    // (2) again in the same process, after other work (reverse order)
    for (i, (o, s)) in hists.iter().enumerate().rev() {
        let again = Instance::new(*o, s).run_all();
        if again != alone[i] {
            let at = again.iter().zip(alone[i].iter()).position(|(a, b)| a != b);
            return Verdict::fail(format!("history {} gives a different transcript when run a second time in the same process (first difference at call {:?})", i, at));
        }
    }
    // (2b) the same bytes through a source that fragments its reads (sockets, pipes, chained
    // buffers return short counts): the result is a function of the bytes, not of their delivery
    let chunk = g.range(1, 9) as usize;
    for (i, (o, s)) in hists.iter().enumerate() {
        let mut inst = Instance::new(*o, s);
        inst.chunk = chunk;
        let t = inst.run_all();
        if t != alone[i] {
            let at = t.iter().zip(alone[i].iter()).position(|(a, b)| a != b);
            return Verdict::fail(format!(
                "history {} gives a different transcript when its bytes arrive in reads of at most {} bytes (first difference at call {:?}: {:?} vs {:?})",
                i, chunk, at, at.map(|p| t[p].clone()), at.map(|p| alone[i][p].clone())
            ));
        }
    }
    // (3) interleaved call by call on one thread, in a generated order
    let mut inst: Vec<Instance> = hists.iter().map(|(o, s)| Instance::new(*o, s)).collect();
    let mut guard_n = 0;
    while inst.iter().any(|x| !x.done()) {
        let pick = g.below(k as u32) as usize;
        // advance the picked instance, or the next unfinished one
        let mut j = pick;
        for _ in 0..k {
            if !inst[j].done() {
                break;
            }
            j = (j + 1) % k;
        }
        inst[j].advance();
        guard_n += 1;
        if guard_n > 10_000 {
            break;
        }
    }
    for (i, x) in inst.iter().enumerate() {
        if x.transcript != alone[i] {
            let at = x.transcript.iter().zip(alone[i].iter()).position(|(a, b)| a != b);
            return Verdict::fail(format!(
                "history {} of {} gives a different transcript when its calls are interleaved with calls on other decoder instances (first difference at call {:?}: {:?} vs {:?} alone)",
                i,
                k,
                at,
                at.map(|p| x.transcript[p].clone()),
                at.map(|p| alone[i][p].clone())
            ));
        }
    }
    // (4) real threads (every fourth group; thread start-up dominates the cost): 3 replicas of every
    // history, released together by a barrier
    let threaded = g.chance(1, 4);
    if threaded {
        let replicas = 3;
        let barrier = Arc::new(Barrier::new(k * replicas));
        let results: Vec<(usize, Vec<String>)> = std::thread::scope(|s| {
            let mut hs = Vec::new();
            for (i, (o, st)) in hists.iter().enumerate() {
                for _ in 0..replicas {
                    let b = barrier.clone();
                    let (o, st) = (*o, st.clone());
                    hs.push(s.spawn(move || {
                        b.wait();
                        (i, Instance::new(o, &st).run_all())
                    }));
                }
            }
            hs.into_iter().map(|h| h.join().expect("replica thread died")).collect()
        });
        for (i, t) in results {
            if t != alone[i] {
                let at = t.iter().zip(alone[i].iter()).position(|(a, b)| a != b);
                return Verdict::fail(format!("history {} gives a different transcript on a concurrent thread (first difference at call {:?})", i, at));
            }
        }
    }
    let digests: Vec<u64> = alone.iter().map(|t| transcript_digest(t)).collect();
    if let Some(c) = collect {
        let mut v = c.lock().unwrap();
        if v.len() < 400 {
            v.push((hists.clone(), digests.clone()));
        }
    }
    let accepted = alone.iter().map(|t| t.iter().filter(|s| s.starts_with("Ok")).count()).max().unwrap_or(0);
    let rejected = alone.iter().any(|t| t.iter().any(|s| s.starts_with("Err")));
    let key = digests.iter().fold(0u64, |a, d| a.rotate_left(13) ^ d);
    let mut labels: Labels = vec![["2 histories", "3 histories", "4 histories"][k - 2]];
    if threaded {
        labels.push("also run on concurrent threads");
    }
    if alone.iter().any(|t| t.iter().any(|s| s.starts_with("PANIC"))) {
        labels.push("some call panicked (identically every time; judged by C01)");
    }
    Verdict::pass_l(accepted >= 2 && rejected, key, labels)
}

/// Serialise histories for the second-process comparison.
fn encode_hists(all: &[(Vec<(u8, Vec<Step>)>, Vec<u64>)]) -> Value {
    json!(all
        .iter()
        .map(|(hs, ds)| json!({
            "digests": ds.iter().map(|d| format!("{:016x}", d)).collect::<Vec<_>>(),
            "histories": hs.iter().map(|(o, steps)| json!({
                "opts": o,
                "steps": steps.iter().map(|s| match s {
                    Step::Decode(b) => json!({"d": crate::bits::hex(b)}),
                    Step::Stream(b, c) => json!({"s": crate::bits::hex(b), "c": c}),
                    Step::Cleanup => json!("c"),
                }).collect::<Vec<_>>()
            })).collect::<Vec<_>>()
        }))
        .collect::<Vec<_>>())
}

fn decode_steps(v: &Value) -> Vec<Step> {
    v.as_array()
        .map(|a| {
            a.iter()
                .map(|s| {
                    if let Some(d) = s.get("d") {
                        Step::Decode(crate::bits::unhex(d.as_str().unwrap_or("")))
                    } else if let Some(b) = s.get("s") {
                        Step::Stream(crate::bits::unhex(b.as_str().unwrap_or("")), s["c"].as_u64().unwrap_or(1) as usize)
                    } else {
                        Step::Cleanup
                    }
                })
                .collect()
        })
        .unwrap_or_default()
}

/// Child-process entry: recompute the transcript digests of the histories in `path`; print
/// "MISMATCH <group> <history>" lines for any that differ from the recorded ones.
pub fn child_main(path: &str) -> i32 {
    let text = match std::fs::read_to_string(path) {
        Ok(t) => t,
        Err(_) => return 2,
    };
    let v: Value = match serde_json::from_str(&text) {
        Ok(v) => v,
        Err(_) => return 2,
    };
    let mut bad = 0;
    for (gi, grp) in v.as_array().cloned().unwrap_or_default().iter().enumerate() {
        for (hi, h) in grp["histories"].as_array().cloned().unwrap_or_default().iter().enumerate() {
            let steps = decode_steps(&h["steps"]);
            let t = Instance::new(h["opts"].as_u64().unwrap_or(0) as u8, &steps).run_all();
            let d = format!("{:016x}", transcript_digest(&t));
            if Some(d.as_str()) != grp["digests"][hi].as_str() {
                println!("MISMATCH {} {}", gi, hi);
                bad += 1;
            }
        }
    }
    println!("CHECKED {}", v.as_array().map(|a| a.len()).unwrap_or(0));
    if bad > 0 {
        1
    } else {
        0
    }
}

fn tiny(ptype: crate::syntax::PicType, tr: u8, dc: Option<u8>, w: u8) -> Vec<u8> {
    use crate::syntax::*;
    let mut hdr = Header::sorenson(0, ptype, Size::Custom8(w, 16), 4);
    hdr.tr = tr;
    let n = hdr.mb_dims().map(|(a, b)| a * b).unwrap_or(1);
    let mb = match dc {
        Some(v) => {
            let mut m = Mb::new(MbKind::Intra);
            for b in 0..6 {
                m.blocks[b].dc = v;
            }
            m
        }
        None => Mb::not_coded(),
    };
    encode_pic(&Pic { hdr, mbs: vec![mb; n], trailing_zero_bits: 0 })
}

/// A long history (reference picture, tens of thousands of disposable pictures, then a predicted
/// picture) run alone and run with another instance decoding between every two of its calls: more
/// than 2^16 decode calls in the process, so that any process-wide counter wraps.
fn long_interleaved_suite(n: usize) -> SuiteReport {
    simple_suite("long_interleaved_histories", false, |acc| {
        use crate::syntax::PicType;
        let mut victim_steps: Vec<Step> = vec![Step::Decode(tiny(PicType::I, 3, Some(100), 16))];
        for k in 0..n {
            // mostly intra disposable pictures with values that are never the reference's; every fifth not coded
            victim_steps.push(Step::Decode(tiny(PicType::D, (k % 251) as u8, if k % 5 != 4 { Some(150 + (k * 7 % 90) as u8) } else { None }, 16)));
        }
        victim_steps.push(Step::Decode(tiny(PicType::P, 9, None, 16)));
        let mut other_steps: Vec<Step> = vec![Step::Decode(tiny(PicType::I, 3, Some(50), 32))];
        for k in 0..n {
            other_steps.push(Step::Decode(tiny(if k % 3 == 0 { PicType::D } else { PicType::P }, (k % 7) as u8, if k % 5 == 0 { Some(60 + (k % 100) as u8) } else { None }, 32)));
        }
        other_steps.push(Step::Decode(vec![0xFF; 12]));
        let alone_v = Instance::new(1, &victim_steps).run_all();
        let alone_o = Instance::new(3, &other_steps).run_all();
        // the last picture of the first history is a not-coded P picture: a copy of the flat-100 intra picture
        let flat100 = {
            let mut st = H263State::new(options_from_bits(1));
            let _ = decode_bytes(&mut st, &tiny(PicType::I, 9, Some(100), 16));
            let _ = decode_bytes(&mut st, &tiny(PicType::P, 9, None, 16));
            format!("Ok|{:016x}", last_digest(&st))
        };
        if alone_v.last() != Some(&flat100) {
            acc.fail(json!({"kind":"params","long_interleaved":n}), format!("the predicted picture at the end of the long history is not the copy of its reference: {:?}, expected {}", alone_v.last(), flat100));
            return;
        }
        let mut v = Instance::new(1, &victim_steps);
        let mut o = Instance::new(3, &other_steps);
        // two calls of the other instance between two of the first: a different phase than 1:1
        while !v.done() || !o.done() {
            v.advance();
            o.advance();
            if v.transcript.len() % 3 == 0 {
                o.advance();
            }
        }
        acc.count_n(2 * n as u64 + 4, 2);
        for (name, got, want) in [("first", &v.transcript, &alone_v), ("second", &o.transcript, &alone_o)] {
            if got != want {
                let at = got.iter().zip(want.iter()).position(|(a, b)| a != b);
                acc.fail(
                    json!({"kind":"params","long_interleaved":n}),
                    format!("the {} of two long histories ({} pictures each) differs when its calls alternate with the other instance's (first difference at call {:?}: {:?} vs {:?} alone)", name, n + 2, at, at.map(|p| got[p].clone()), at.map(|p| want[p].clone())),
                );
                return;
            }
        }
        // the last picture of the first history must be the copy of its reference (flat 100)
        let last = alone_v.last().cloned().unwrap_or_default();
        if !last.starts_with("Ok") {
            acc.fail(json!({"kind":"params","long_interleaved":n}), format!("last call of the long history gave {}", last));
            return;
        }
        acc.sample(|| json!({"histories": 2, "pictures_each": n + 2, "schedule": "strict alternation of calls on one thread"}));
    })
}

pub fn cfg_for(tier: Tier) -> PicCfg {
    match tier {
        Tier::Quick => PicCfg { max_dim: 64, max_fixed_mbs: 396, budget: 400, extreme_aspect: false, ..PicCfg::quick() },
        Tier::Thorough => PicCfg { max_dim: 128, max_fixed_mbs: 396, budget: 600, ..PicCfg::thorough() },
    }
}

pub fn run(ctx: &Ctx) -> i32 {
    let cfg = cfg_for(ctx.tier);
    let mut reports = vec![super::regression_suite(ctx)];
    // textual assumption check: safe Rust only in the three crates
    reports.push(simple_suite("no_unsafe_no_static_mut", true, |acc| {
        for dir in ["/repo/h263/src", "/repo/yuv/src", "/repo/deblock/src"] {
            let mut stack = vec![std::path::PathBuf::from(dir)];
            while let Some(d) = stack.pop() {
                for e in std::fs::read_dir(&d).into_iter().flatten().flatten() {
                    let p = e.path();
                    if p.is_dir() {
                        stack.push(p);
                    } else if p.extension().and_then(|x| x.to_str()) == Some("rs") {
                        let text = std::fs::read_to_string(&p).unwrap_or_default();
                        acc.count(true);
                        for (ln, line) in text.lines().enumerate() {
                            let code = line.split("//").next().unwrap_or("");
                            if code.contains("unsafe ") || code.contains("unsafe{") || code.contains("static mut") || code.contains("thread_local!") {
                                acc.label("files with unsafe / static mut / thread_local (informational)");
                                let _ = ln;
                            }
                        }
                    }
                }
            }
        }
        acc.sample(|| json!({"scanned": ["/repo/h263/src", "/repo/yuv/src", "/repo/deblock/src"], "looked_for": ["unsafe", "static mut", "thread_local!"]}));
    }));
    reports.push(long_interleaved_suite(ctx.tier.pick(40_000usize, 140_000usize)));
    let collected = std::sync::Mutex::new(Vec::new());
    let cases = ctx.tier.pick(25_000u64, 500_000u64);
    {
        let c = &collected;
        reports.push(tape_suite(ctx, "history_groups", cases, 16_384, &move |g| group_case(g, &cfg, Some(c))));
    }
    // (5) second process
    let all = collected.into_inner().unwrap();
    let mut rep = SuiteReport { name: "second_process".into(), ..Default::default() };
    if !all.is_empty() && reports.iter().all(|r| r.failure.is_none()) {
        let dir = ctx.root.join("harness").join("target").join("tmp");
        let _ = std::fs::create_dir_all(&dir);
        let path = dir.join(format!("c17-{}-{}.json", std::process::id(), ctx.seed));
        std::fs::write(&path, serde_json::to_string(&encode_hists(&all)).unwrap()).expect("write");
        let out = std::process::Command::new(std::env::current_exe().unwrap()).arg("c17-child").arg(&path).output();
        match out {
            Ok(o) => {
                let text = String::from_utf8_lossy(&o.stdout).to_string();
                rep.evaluations = all.iter().map(|(h, _)| h.len() as u64).sum();
                rep.distinct_nontrivial = rep.evaluations;
                if let Some(line) = text.lines().find(|l| l.starts_with("MISMATCH")) {
                    let parts: Vec<usize> = line.split_whitespace().skip(1).filter_map(|x| x.parse().ok()).collect();
                    let (gi, hi) = (parts[0], parts[1]);
                    let one = vec![(vec![all[gi].0[hi].clone()], vec![all[gi].1[hi]])];
                    rep.failure = Some(Failure {
                        suite: "second_process".into(),
                        msg: format!("history {} of group {} gives a different transcript in a second process", hi, gi),
                        signature: None,
                        case: json!({"kind": "params", "group": encode_hists(&one)}),
                        description: None,
                    });
                } else if !text.contains("CHECKED") {
                    rep.notes.push(format!("second process did not report (exit {:?}); not judged", o.status.code()));
                }
                rep.samples.push(json!({"groups_recomputed_in_second_process": all.len()}));
            }
            Err(e) => rep.notes.push(format!("could not start second process: {}", e)),
        }
        let _ = std::fs::remove_file(&path);
    }
    reports.push(rep);
    finish(
        ctx,
        reports,
        Summary {
            rule: "Groups of 2..4 histories from the C01 generator (valid, hostile and corrupted data; own readers, streams, clean-ups; all four option sets). The transcript of a history (per call: result and digest of get_last_picture()) must be identical when it is run (1) alone, (2) again in the same process after other work and through a source that delivers the same bytes in reads of 1..9 bytes, (3) with its calls interleaved with calls on the other instances in a tape-generated order on one thread, (4) for every fourth group, on 3 replicas x k real threads released together by a barrier, (5) in a second process (up to 400 groups per run are recomputed by a child process). Non-trivial = a history with >= 2 accepted and >= 1 rejected call; distinct by transcript digests.",
            assumptions: vec![
                "the harness owns call-level interleaving; instruction-level interleaving inside a call is left to the OS scheduler (safe Rust rules out data races; the scan for unsafe / static mut / thread_local is reported under no_unsafe_no_static_mut)".into(),
            ],
            exhaustive: false,
            extra: Map::new(),
        },
    )
}

pub fn replay(suite: &str, case: &Value) -> Option<Verdict> {
    match suite {
        "history_groups" => {
            let tier = if case["tier"].as_str() == Some("thorough") { Tier::Thorough } else { Tier::Quick };
            Some(group_case(&mut Gen::new(&super::tape_of(case)?), &cfg_for(tier), None))
        }
        "long_interleaved_histories" => Some(match long_interleaved_suite(case["long_interleaved"].as_u64()? as usize).failure {
            Some(f) => Verdict::fail(f.msg),
            None => Verdict::pass(true, 0),
        }),
        "second_process" => {
            // recompute here (this IS another process than the one that recorded the digest)
            let grp = &case["group"][0];
            let h = &grp["histories"][0];
            let steps = decode_steps(&h["steps"]);
            let t = Instance::new(h["opts"].as_u64().unwrap_or(0) as u8, &steps).run_all();
            let d = format!("{:016x}", transcript_digest(&t));
            Some(if Some(d.as_str()) == grp["digests"][0].as_str() { Verdict::pass(true, fnv64(d.as_bytes())) } else { Verdict::fail("transcript differs from the recorded one") })
        }
        _ => None,
    }
}
