//! C02 - intra pictures reconstruct exactly as H.263 prescribes.

use super::common::*;
use crate::bits::fnv64;
use crate::dec::*;
use crate::gen::Gen;
use crate::gen_pic::*;
use crate::model::recon::*;
use crate::runner::*;
use crate::syntax::*;
use h263_rs::H263State;
use serde_json::{json, Map, Value};

pub struct IntraInfo {
    pub tolerated: u64,
    pub stats: ModelStats,
    pub key: u64,
}

/// Decode a valid intra picture with a fresh decoder and compare with the reference model.
pub fn check_intra(pic: &Pic) -> Result<IntraInfo, String> {
    let mut st = H263State::new(options_scal(pic.hdr.mode, pic.hdr.tr % 2 == 1));
    check_intra_on(pic, &mut st)
}

/// As `check_intra`, on a decoder that may already have a history.
pub fn check_intra_on(pic: &Pic, st: &mut H263State) -> Result<IntraInfo, String> {
    let model = reconstruct(pic, None).map_err(|e| format!("HARNESS: generator produced an invalid intra picture: {}", e))?;
    let bytes = encode_pic(pic);
    let st = &mut *st;
    match decode_bytes(st, &bytes) {
        Outcome::Ok => {}
        o => return Err(format!("valid intra picture ({} {:?} q{}) was not decoded: {}", mode_label(&pic.hdr), pic.hdr.size, pic.hdr.quant, o.short())),
    }
    let c = compare_last(st, &model.expect)?;
    Ok(IntraInfo {
        tolerated: c.tolerated,
        stats: model.stats,
        key: fnv64(&bytes),
    })
}

/// Pictures of more than 65 536 macroblocks, every macroblock with its own flat level (any
/// macroblock decoded into the wrong place, or not at all, shows): 4112x4096 in both tiers, two
/// more shapes in the thorough tier.
fn huge_item(i: u64, acc: &mut Acc) {
    const SIZES: [(u16, u16); 3] = [(4112, 4096), (16400, 1040), (1030, 16500)];
    let (w, h) = SIZES[i as usize % 3];
    let mut hdr = Header::sorenson((i % 2) as u8, PicType::I, Size::Custom16(w, h), 5);
    hdr.tr = 11;
    let (mbw, mbh) = hdr.mb_dims().unwrap();
    let mut mbs = Vec::with_capacity(mbw * mbh);
    for n in 0..mbw * mbh {
        let mut mb = Mb::new(MbKind::Intra);
        // a level that depends on both macroblock coordinates and repeats with period 251 x 241
        let v = 20 + (((n % mbw) % 251) * 7 + ((n / mbw) % 241) * 13) % 200;
        for b in 0..6 {
            let dc = (v + b) as u8;
            mb.blocks[b].dc = if dc == 128 { 129 } else { dc };
        }
        mbs.push(mb);
    }
    let pic = Pic { hdr, mbs, trailing_zero_bits: 0 };
    acc.count(true);
    acc.count(true);
    match check_intra(&pic) {
        Err(m) => {
            if m.starts_with("HARNESS") {
                panic!("{}", m);
            }
            acc.fail(json!({"kind":"params","huge":i}), format!("{}x{} picture ({} macroblocks): {}", w, h, mbw * mbh, m));
        }
        Ok(_) => {
            if i == 0 {
                acc.sample(|| json!({"size": [w, h], "macroblocks": mbw * mbh, "content": "one flat level per macroblock, a function of its coordinates"}));
            }
        }
    }
}

fn intra_case(g: &mut Gen, cfg: &PicCfg) -> Verdict {
    let (mode, version) = gen_mode(g, cfg);
    // a third of the pictures are decoded by a decoder that has already seen other data (drawn
    // first, so that large pictures get an earlier history as often as small ones)
    let scal = g.bool();
    let mut st = H263State::new(options_scal(mode, scal));
    let pre = if g.chance(1, 3) {
        let small = PicCfg { max_dim: 48, max_fixed_mbs: 48, budget: 250, extreme_aspect: false, ..*cfg };
        prehistory(g, &mut st, mode, version, &small)
    } else {
        Vec::new()
    };
    let size = gen_size(g, mode, cfg);
    let mut pic = gen_intra_pic_with(g, cfg, mode, version, size);
    let mut same_tr = false;
    if !pre.is_empty() && g.chance(1, 3) {
        // the picture carries the temporal reference of the picture decoded before it
        if let Some(t) = st.get_last_picture().map(|p| p.as_header().temporal_reference) {
            pic.hdr.tr = t as u8;
            same_tr = true;
        }
    }
    // one picture in eight is preceded - on this thread, in a decoder of its own - by a small
    // sibling carrying the picture's first macroblock (the very same blocks) in a picture of 1..15
    // x 1..15 samples, which crops them: what a decoder instance computes for a block must not
    // reach another instance, however alike their data
    if g.chance(1, 8) && !pic.mbs.is_empty() {
        let (sw, sh) = (g.range(1, 15) as u16, g.range(1, 15) as u16);
        let ssize = match mode {
            Mode::Sorenson => Size::Custom8(sw as u8, sh as u8),
            Mode::Standard => Size::StdCustom(((sw + 3) / 4 * 4).max(4), ((sh + 3) / 4 * 4).max(4)),
        };
        let mut shdr = pic.hdr.clone();
        shdr.size = ssize;
        if mode == Mode::Standard {
            shdr.plus = PlusForm::Full;
        }
        let mut first = pic.mbs[0].clone();
        first.stuffing = 0;
        let sib = Pic { hdr: shdr, mbs: vec![first], trailing_zero_bits: 0 };
        if let Err(m) = check_intra(&sib) {
            if m.starts_with("HARNESS") {
                panic!("{}", m);
            }
            return Verdict::fail(format!("(small sibling picture {:?} with the first macroblock of the picture) {}", ssize, m));
        }
    }
    g.describe(|| describe_pic(&pic));
    match check_intra_on(&pic, &mut st).map_err(|m| if pre.is_empty() { m } else { format!("(on a decoder with an earlier history) {}", m) }) {
        Err(m) => {
            if m.starts_with("HARNESS") {
                // a generator bug must never be reported as a violation of the code
                panic!("{}", m);
            }
            Verdict::fail(m)
        }
        Ok(info) => {
            let mut l: Labels = vec![mode_label(&pic.hdr), size_label(&pic.hdr)];
            l.extend(pre.iter().copied());
            if same_tr {
                l.push("same temporal reference as the picture decoded before");
            }
            if info.stats.escapes > 0 {
                l.push("has escapes");
            }
            if info.stats.saturated > 0 {
                l.push("has saturated coefficient");
            }
            if info.stats.dquant_mbs > 0 {
                l.push("has DQUANT");
            }
            if info.tolerated > 0 {
                l.push("used tie tolerance");
            }
            if !pic.hdr.pei.is_empty() {
                l.push("has PEI bytes");
            }
            if pic.mbs.iter().any(|m| m.stuffing > 0) {
                l.push("has stuffing");
            }
            if encode_pic_bits(&pic).len() % 8 != 0 {
                l.push("zero padding bits to byte boundary");
            }
            Verdict::pass_l(info.stats.ac_coefs > 0, info.key, l)
        }
    }
}

const SYS_SIZES: [(u8, u8); 3] = [(16, 16), (17, 3), (33, 18)];

/// Systematic sub-suite: item = (zig-zag index 1..=63) x size x mode; inner = every quantizer x
/// four level variants; every block of every macroblock carries one coefficient at that index.
fn systematic_item(i: u64, acc: &mut Acc) {
    let idx = (i % 63 + 1) as u8;
    let size = SYS_SIZES[((i / 63) % 3) as usize];
    let m = (i / 189) as usize;
    let (mode, version) = [(Mode::Sorenson, 0u8), (Mode::Sorenson, 1), (Mode::Standard, 0)][m];
    let size = if mode == Mode::Standard { Size::Sqcif } else { Size::Custom8(size.0, size.1) };
    if mode == Mode::Standard && (i / 63) % 3 != 0 {
        return; // one size only in standard mode (fixed formats)
    }
    for q in 1..=31u8 {
        for variant in 0..4u32 {
            let mut hdr = match mode {
                Mode::Sorenson => Header::sorenson(version, PicType::I, size, q),
                Mode::Standard => Header::standard(PicType::I, size, q),
            };
            hdr.tr = idx;
            let (mbw, mbh) = hdr.mb_dims().unwrap();
            let mut mbs = Vec::new();
            for n in 0..mbw * mbh {
                let mut mb = Mb::new(MbKind::Intra);
                for b in 0..6 {
                    let base: i16 = match variant {
                        0 => 1,
                        1 => -2,
                        2 => 3 + (b as i16 + n as i16) % 9,
                        _ => {
                            if version == 1 {
                                -(40 + 37 * (b as i16 + 1))
                            } else {
                                -(20 + 17 * (b as i16 + 1))
                            }
                        }
                    };
                    mb.blocks[b].dc = 16 + ((n * 6 + b) as u8 % 200);
                    if mb.blocks[b].dc == 128 {
                        mb.blocks[b].dc = 129;
                    }
                    mb.blocks[b].events = vec![Event {
                        run: idx - 1,
                        level: base,
                        force_escape: variant == 2 && b % 2 == 0,
                        wide: base.abs() > 63,
                    }];
                }
                mbs.push(mb);
                if mode == Mode::Standard && n >= 5 {
                    // keep standard pictures cheap: remaining macroblocks are DC-only
                    break;
                }
            }
            if mode == Mode::Standard {
                while mbs.len() < mbw * mbh {
                    let mut mb = Mb::new(MbKind::Intra);
                    for b in 0..6 {
                        mb.blocks[b].dc = 100;
                    }
                    mbs.push(mb);
                }
            }
            let pic = Pic {
                hdr,
                mbs,
                trailing_zero_bits: 0,
            };
            match check_intra(&pic) {
                Err(m) => {
                    acc.fail(json!({"kind":"params","item":i,"q":q,"variant":variant,"hex":crate::bits::hex(&encode_pic(&pic))}), format!("zig-zag index {}, q {}, variant {}: {}", idx, q, variant, m));
                    return;
                }
                Ok(_) => acc.count(true),
            }
        }
    }
    if i == 40 {
        acc.sample(|| json!({"zigzag_index": idx, "size": format!("{:?}", size), "mode": format!("{:?} v{}", mode, version), "quantizers": "1..=31", "level_variants": 4}));
    }
}

/// Every coded-block pattern (64) x {INTRA, INTRA+Q} x three stream forms: one macroblock per
/// pattern in a picture, so every MCBPC-I and CBPY codeword is exercised with its blocks present
/// or absent exactly as signalled.
fn cbp_suite() -> SuiteReport {
    simple_suite("all_coded_block_patterns", true, |acc| {
        for (mode, version) in [(Mode::Sorenson, 0u8), (Mode::Sorenson, 1), (Mode::Standard, 0)] {
            for with_q in [false, true] {
                // 64 patterns -> 64 macroblocks: 128x128 in Sorenson mode, CIF's first 64 of 396 otherwise
                let size = if mode == Mode::Sorenson { Size::Custom8(128, 128) } else { Size::Cif };
                let mut hdr = match mode {
                    Mode::Sorenson => Header::sorenson(version, PicType::I, size, 7),
                    Mode::Standard => Header::standard(PicType::I, size, 7),
                };
                hdr.tr = 64 + with_q as u8;
                let (mbw, mbh) = hdr.mb_dims().unwrap();
                let mut mbs = Vec::new();
                for n in 0..mbw * mbh {
                    let pattern = n % 64;
                    let mut mb = Mb::new(if with_q { MbKind::IntraQ } else { MbKind::Intra });
                    mb.dquant = [1i8, -1, 2, -2][n % 4];
                    for b in 0..6 {
                        mb.blocks[b].dc = 30 + ((n * 7 + b * 29) % 190) as u8;
                        if mb.blocks[b].dc == 128 {
                            mb.blocks[b].dc = 126;
                        }
                        if (pattern >> b) & 1 == 1 {
                            mb.blocks[b].events = vec![Event { run: ((b + n) % 20) as u8, level: 3 - (n as i16 % 7), force_escape: false, wide: false }];
                            if mb.blocks[b].events[0].level == 0 {
                                mb.blocks[b].events[0].level = 5;
                            }
                        }
                    }
                    mbs.push(mb);
                }
                let pic = Pic { hdr, mbs, trailing_zero_bits: 0 };
                acc.count_n(64, 64);
                if let Err(m) = check_intra(&pic) {
                    acc.fail(json!({"kind":"params","suite":"cbp","mode":format!("{:?}",mode),"version":version,"with_q":with_q}), format!("coded-block-pattern sweep ({:?} v{}, {}): {}", mode, version, if with_q { "INTRA+Q" } else { "INTRA" }, m));
                    return;
                }
            }
        }
        acc.sample(|| json!({"patterns": "all 64 (CBPC x CBPY)", "macroblock_types": ["INTRA", "INTRA+Q"], "forms": 3}));
    })
}

pub fn run(ctx: &Ctx) -> i32 {
    let cfg = ctx.tier.pick(PicCfg::quick(), PicCfg::thorough());
    let mut reports = vec![super::regression_suite(ctx)];
    reports.push(cbp_suite());
    reports.push(exhaustive_suite(ctx, "zigzag_index_sweep", 63 * 3 * 3, &systematic_item));
    let cases = ctx.tier.pick(120_000u64, 2_500_000u64);
    reports.push(tape_suite(ctx, "random_intra_pictures", cases, 4096, &move |g| intra_case(g, &cfg)));
    reports.push(exhaustive_suite(ctx, "more_than_65536_macroblocks", ctx.tier.pick(1u64, 3u64), &huge_item));
    if ctx.tier == Tier::Thorough {
        // the large fixed formats, few cases each
        let big = PicCfg {
            max_fixed_mbs: 6336,
            budget: 3000,
            ..PicCfg::thorough()
        };
        reports.push(tape_suite(ctx, "large_formats", 600, 4096, &move |g| {
            let (mode, version) = gen_mode(g, &big);
            let size = match mode {
                Mode::Standard => *g.pick(&[Size::Cif, Size::Cif4, Size::Cif16]),
                Mode::Sorenson => *g.pick(&[Size::Cif, Size::S320x240, Size::Custom16(640, 480), Size::Custom16(1408, 1152)]),
            };
            let pic = gen_intra_pic_with(g, &big, mode, version, size);
            g.describe(|| describe_pic(&pic));
            match check_intra(&pic) {
                Err(m) => Verdict::fail(m),
                Ok(info) => Verdict::pass_l(info.stats.ac_coefs > 0, info.key, vec![mode_label(&pic.hdr)]),
            }
        }));
    }
    finish(
        ctx,
        reports,
        Summary {
            rule: "random_intra_pictures: valid intra picture ASTs drawn from the proptest tape (mode, size incl. non-multiples of 16 and 1-pixel dimensions, PQUANT, INTRA/INTRA+Q with DQUANT, INTRADC, block shapes empty/single/first-row/first-column/dense/sparse, short and escape events, stuffing, PEI, trailing zero bits), serialised by the harness encoder, decoded by a fresh H263State and compared sample-by-sample with the reference model (f64 IDCT; a difference of 1 tolerated only within eps(S) of a rounding boundary). zigzag_index_sweep enumerates every zig-zag index x quantizer 1..31 x 4 level variants x sizes x modes. Non-trivial = decoded and >= 1 AC coefficient; distinct by encoded bytes.",
            assumptions: vec![
                "frozen encoder tables (tools/extract_tables.py output) agree with H.263 Tables 7/8/12/14/16; the repository's unit tests pin the decoder-side tables".into(),
                "tie tolerance eps(S)=min(1e-6+2e-6*S,0.05), S = sum |coefficients| of the block".into(),
            ],
            exhaustive: false,
            extra: Map::new(),
        },
    )
}

pub fn replay(suite: &str, case: &Value) -> Option<Verdict> {
    match suite {
        "random_intra_pictures" => {
            let tape = super::tape_of(case)?;
            let cfg = if case["tier"].as_str() == Some("thorough") { PicCfg::thorough() } else { PicCfg::quick() };
            Some(intra_case(&mut Gen::new(&tape), &cfg))
        }
        "all_coded_block_patterns" => Some(match cbp_suite().failure {
            Some(f) => Verdict::fail(f.msg),
            None => Verdict::pass(true, 0),
        }),
        "more_than_65536_macroblocks" => {
            let mut acc = Acc::default();
            huge_item(case["huge"].as_u64()?, &mut acc);
            Some(match acc.failure {
                Some((_, _, m, _)) => Verdict::fail(m),
                None => Verdict::pass(true, 0),
            })
        }
        "zigzag_index_sweep" => {
            let mut acc = Acc::default();
            systematic_item(case["item"].as_u64()?, &mut acc);
            Some(match acc.failure {
                Some((_, _, m, _)) => Verdict::fail(m),
                None => Verdict::pass(true, 0),
            })
        }
        _ => None,
    }
}
