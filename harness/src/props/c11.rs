//! C11 - dequantisation is exact and saturating over the whole quantizer x level domain.

use super::common::*;
use crate::dec::*;
use crate::model::recon::*;
use crate::runner::*;
use crate::syntax::*;
use h263_rs::verif_hooks as hk;
use h263_rs::H263State;
use serde_json::{json, Map, Value};

#[derive(Clone, Copy, Debug)]
struct Probe {
    /// zig-zag position of the coefficient under test
    pos: u8,
    level: i16,
    force_escape: bool,
    wide: bool,
    /// true: the event is the last of its block; false: a (run 0, level 1) event follows it
    last: bool,
}

const MODES: [(Mode, u8, &str); 3] = [(Mode::Standard, 0, "standard"), (Mode::Sorenson, 0, "sorenson v0"), (Mode::Sorenson, 1, "sorenson v1")];

/// All probes for one stream form.
fn probes(version1: bool, intra: bool) -> Vec<Probe> {
    let first = if intra { 1u8 } else { 0 };
    let mut v = Vec::new();
    // short codes, both signs
    for (_, last, run, lvl) in short_codes() {
        let pos = run + first;
        let max = if *last { 63 } else { 62 };
        if pos > max {
            continue;
        }
        for s in [1i16, -1] {
            v.push(Probe { pos, level: s * *lvl as i16, force_escape: false, wide: false, last: *last });
        }
    }
    // escapes: every level of every width at every position, as last and as non-last event
    let widths: &[(i16, bool)] = if version1 { &[(63, false), (1023, true)] } else { &[(127, false)] };
    for &(maxl, wide) in widths {
        for l in 1..=maxl {
            for s in [1i16, -1] {
                for pos in first..=63u8 {
                    v.push(Probe { pos, level: s * l, force_escape: true, wide, last: true });
                    if pos <= 62 {
                        v.push(Probe { pos, level: s * l, force_escape: true, wide, last: false });
                    }
                }
            }
        }
    }
    v
}

fn probe_events(p: &Probe, intra: bool) -> Vec<Event> {
    let first = if intra { 1 } else { 0 };
    let mut e = vec![Event { run: p.pos - first, level: p.level, force_escape: p.force_escape, wide: p.wide }];
    if !p.last {
        e.push(Event { run: 0, level: 1, force_escape: false, wide: false });
    }
    e
}

fn grid_size(mode: Mode) -> Size {
    match mode {
        Mode::Sorenson => Size::Custom8(64, 48),
        Mode::Standard => Size::Sqcif,
    }
}

/// Decode a flat mid-grey intra picture (every INTRADC = 255 -> level 1024 -> sample 128).
fn grey_reference(st: &mut H263State, mode: Mode, version: u8) -> Result<Planes, String> {
    let size = grid_size(mode);
    let mut hdr = match mode {
        Mode::Sorenson => Header::sorenson(version, PicType::I, size, 8),
        Mode::Standard => Header::standard(PicType::I, size, 8),
    };
    hdr.tr = 1;
    let (mbw, mbh) = hdr.mb_dims().unwrap();
    let mut mbs = Vec::new();
    for _ in 0..mbw * mbh {
        let mut mb = Mb::new(MbKind::Intra);
        for b in 0..6 {
            mb.blocks[b].dc = 255;
        }
        mbs.push(mb);
    }
    let pic = Pic { hdr, mbs, trailing_zero_bits: 0 };
    match decode_bytes(st, &encode_pic(&pic)) {
        Outcome::Ok => {}
        o => return Err(format!("flat reference picture not decoded: {}", o.short())),
    }
    let lp = last_picture(st).ok_or("no picture")?;
    if lp.planes.y.iter().any(|v| *v != 128) || lp.planes.cb.iter().any(|v| *v != 128) {
        return Err("INTRADC code 255 must reconstruct to level 1024, i.e. flat sample value 128".into());
    }
    Ok(lp.planes)
}

/// item = (mode, quantizer, intra?, chunk); every probe of the chunk is placed in one block of a
/// picture, the picture is decoded and compared with the ideal transform of the specified
/// coefficient.
fn grid_item(i: u64, chunks: u64, acc: &mut Acc) {
    let chunk = i % chunks;
    let intra = (i / chunks) % 2 == 1;
    let q = ((i / chunks / 2) % 31 + 1) as u8;
    let m = (i / chunks / 2 / 31) as usize;
    let (mode, version, mname) = MODES[m];
    let all = probes(version == 1, intra);
    let per = (all.len() as u64 + chunks - 1) / chunks;
    let lo = (chunk * per) as usize;
    let hi = (((chunk + 1) * per) as usize).min(all.len());
    if lo >= hi {
        return;
    }
    let size = grid_size(mode);
    let mut st = H263State::new(options_scal(mode, q % 2 == 0));
    let reference = match grey_reference(&mut st, mode, version) {
        Ok(r) => r,
        Err(e) => {
            acc.fail(json!({"kind":"params","item":i,"chunks":chunks}), e);
            return;
        }
    };
    let mut hdr = match mode {
        Mode::Sorenson => Header::sorenson(version, if intra { PicType::I } else { PicType::P }, size, q),
        Mode::Standard => Header::standard(if intra { PicType::I } else { PicType::P }, size, q),
    };
    hdr.tr = 2;
    let (mbw, mbh) = hdr.mb_dims().unwrap();
    let per_pic = mbw * mbh * 6;
    let mut k = lo;
    while k < hi {
        let mut mbs = Vec::new();
        let first_probe = k;
        for _ in 0..mbw * mbh {
            let mut mb = Mb::new(if intra { MbKind::Intra } else { MbKind::Inter });
            for b in 0..6 {
                mb.blocks[b].dc = 255;
                if k < hi {
                    mb.blocks[b].events = probe_events(&all[k], intra);
                    k += 1;
                }
            }
            mbs.push(mb);
        }
        let pic = Pic { hdr: hdr.clone(), mbs, trailing_zero_bits: 0 };
        let model = match reconstruct(&pic, Some(&reference)) {
            Ok(m) => m,
            Err(e) => panic!("HARNESS: invalid probe picture: {}", e),
        };
        // decode on a clone-free path: P pictures replace the reference, so re-prime for P
        if !intra {
            // the previous P picture became the reference: restore the grey one
            if let Err(e) = grey_reference(&mut st, mode, version) {
                acc.fail(json!({"kind":"params","item":i,"chunks":chunks}), e);
                return;
            }
        }
        let bytes = encode_pic(&pic);
        let res = match decode_bytes(&mut st, &bytes) {
            Outcome::Ok => compare_last(&st, &model.expect).map(|_| ()),
            o => Err(format!("valid picture not decoded: {}", o.short())),
        };
        if let Err(m) = res {
            // find the block at fault for the message: re-check block by block using the model
            let n = (k - first_probe).min(per_pic);
            acc.fail(
                json!({"kind":"params","item":i,"chunks":chunks,"first_probe":first_probe,"probes":n}),
                format!(
                    "{} q{} {} blocks, probes {:?} ..: {}",
                    mname,
                    q,
                    if intra { "intra" } else { "inter" },
                    &all[first_probe..(first_probe + 3).min(hi)],
                    m
                ),
            );
            return;
        }
        let n = k - first_probe;
        let nt = all[first_probe..k].iter().filter(|p| p.level.abs() >= 2 || p.force_escape).count();
        acc.count_n(n as u64, nt as u64);
    }
    if i == 5 {
        acc.sample(|| json!({"mode": mname, "quantizer": q, "blocks": if intra {"intra"} else {"inter over flat 128"}, "probes_in_chunk": hi - lo, "first": format!("{:?}", all[lo])}));
    }
}

fn intradc_suite() -> SuiteReport {
    simple_suite("intradc_all_codes", true, |acc| {
        for (mode, version, mname) in MODES {
            for code in 0..=255u8 {
                for in_p in [false, true] {
                    let size = grid_size(mode);
                    let mut st = H263State::new(options_scal(mode, code % 2 == 1));
                    let reference = match grey_reference(&mut st, mode, version) {
                        Ok(r) => r,
                        Err(e) => {
                            acc.fail(json!({"kind":"params","suite":"intradc"}), e);
                            return;
                        }
                    };
                    let t = if in_p { PicType::P } else { PicType::I };
                    let mut hdr = match mode {
                        Mode::Sorenson => Header::sorenson(version, t, size, 1 + code % 31),
                        Mode::Standard => Header::standard(t, size, 1 + code % 31),
                    };
                    hdr.tr = 9;
                    let (mbw, mbh) = hdr.mb_dims().unwrap();
                    let mut mbs = Vec::new();
                    for n in 0..mbw * mbh {
                        let mut mb = Mb::new(MbKind::Intra);
                        for b in 0..6 {
                            // the code under test sits in one block of one macroblock, position varies with the code
                            mb.blocks[b].dc = if n == (code as usize % (mbw * mbh)) && b == (code as usize % 6) { code } else { 200 };
                        }
                        mbs.push(mb);
                    }
                    let pic = Pic { hdr, mbs, trailing_zero_bits: 0 };
                    let out = decode_bytes(&mut st, &encode_pic(&pic));
                    acc.count(true);
                    if code == 0 || code == 128 {
                        match out {
                            Outcome::Err(_) => {}
                            o => {
                                acc.fail(json!({"kind":"params","suite":"intradc","code":code}), format!("{}: INTRADC code {} must be rejected, got {}", mname, code, o.short()));
                                return;
                            }
                        }
                        continue;
                    }
                    let model = reconstruct(&pic, Some(&reference)).expect("valid");
                    let r = match out {
                        Outcome::Ok => compare_last(&st, &model.expect).map(|_| ()),
                        o => Err(format!("not decoded: {}", o.short())),
                    };
                    if let Err(m) = r {
                        acc.fail(
                            json!({"kind":"params","suite":"intradc","code":code}),
                            format!("{}: INTRADC code {} (level {}) in {} picture: {}", mname, code, intradc_level(code), if in_p { "P" } else { "I" }, m),
                        );
                        return;
                    }
                }
            }
        }
        acc.sample(|| json!({"intradc_codes": "0..=255 in I and in P pictures, three stream forms; 0 and 128 must be rejected; 255 -> 1024"}));
    })
}

fn dquant_suite() -> SuiteReport {
    simple_suite("dquant_updates", true, |acc| {
        for (mode, version, mname) in MODES {
            for pq in 1..=31u8 {
                // every chain of three DQUANT values (64 chains): equal signs walk into the clamps,
                // mixed signs walk back from them
                for chain in 0..64u32 {
                    let dqs: [i8; 3] = [[-2i8, -1, 1, 2][(chain % 4) as usize], [-2i8, -1, 1, 2][(chain / 4 % 4) as usize], [-2i8, -1, 1, 2][(chain / 16) as usize]];
                    // every other chain: the macroblocks that carry DQUANT have no coefficient of
                    // their own (no coded block) - the update still holds for the ones after them
                    let empty_q = chain % 2 == 1;
                    for inter in [false, true] {
                        let size = grid_size(mode);
                        let mut st = H263State::new(options_scal(mode, pq % 2 == 1));
                        let reference = match grey_reference(&mut st, mode, version) {
                            Ok(r) => r,
                            Err(e) => {
                                acc.fail(json!({"kind":"params","suite":"dquant"}), e);
                                return;
                            }
                        };
                        let t = if inter { PicType::P } else { PicType::I };
                        let mut hdr = match mode {
                            Mode::Sorenson => Header::sorenson(version, t, size, pq),
                            Mode::Standard => Header::standard(t, size, pq),
                        };
                        hdr.tr = 3;
                        let (mbw, mbh) = hdr.mb_dims().unwrap();
                        let mut mbs = Vec::new();
                        for n in 0..mbw * mbh {
                            // macroblocks 1, 3, 4 apply DQUANT (a chain that reaches the clamps); every
                            // macroblock carries level +-10 coefficients so neighbouring quantizers differ by 21
                            let with_q = n == 1 || n == 3 || n == 4;
                            let kind = match (inter, with_q) {
                                (false, false) => MbKind::Intra,
                                (false, true) => MbKind::IntraQ,
                                (true, false) => MbKind::Inter,
                                (true, true) => {
                                    if n == 3 {
                                        MbKind::Inter4VQ
                                    } else {
                                        MbKind::InterQ
                                    }
                                }
                            };
                            let mut mb = Mb::new(kind);
                            mb.dquant = dqs[match n {
                                1 => 0,
                                3 => 1,
                                _ => 2,
                            }];
                            for b in 0..6 {
                                mb.blocks[b].dc = 255;
                                let lv = if (n + b) % 2 == 0 { 10 } else { -10 };
                                if !(with_q && empty_q) {
                                    mb.blocks[b].events = vec![Event { run: if inter { 0 } else { 1 }, level: lv, force_escape: false, wide: false }];
                                }
                            }
                            mbs.push(mb);
                        }
                        let pic = Pic { hdr, mbs, trailing_zero_bits: 0 };
                        let model = reconstruct(&pic, Some(&reference)).expect("valid");
                        let r = match decode_bytes(&mut st, &encode_pic(&pic)) {
                            Outcome::Ok => compare_last(&st, &model.expect).map(|_| ()),
                            o => Err(format!("not decoded: {}", o.short())),
                        };
                        acc.count(true);
                        if let Err(m) = r {
                            acc.fail(
                                json!({"kind":"params","suite":"dquant","pq":pq,"dq":format!("{:?}", dqs),"inter":inter}),
                                format!("{}: PQUANT {} with DQUANT {:?} at macroblocks 1,3,4 (quantizers must be {:?}...): {}", mname, pq, dqs, &model.quants[..6.min(model.quants.len())], m),
                            );
                            return;
                        }
                    }
                }
            }
        }
        acc.sample(|| json!({"dquant": "PQUANT 1..=31 x every chain of three DQUANT values from {-2,-1,1,2} (clamps reached and left again), I and P pictures, three stream forms"}));
    })
}

/// Blocks with two escape-coded events (every combination of the escape widths a stream form
/// has, boundary levels of each width, both orders), at three quantizers, intra and inter.
fn escape_pairs_suite() -> SuiteReport {
    simple_suite("two_escapes_in_one_block", true, |acc| {
        for (mode, version, mname) in MODES {
            let widths: &[(bool, &[i16])] = if version == 1 { &[(false, &[1, -1, 31, 63, -63]), (true, &[1, -1, 63, 64, -64, 127, 128, -512, 1023, -1023])] } else { &[(false, &[1, -1, 63, 64, -64, 127, -127])] };
            for q in [1u8, 8, 31] {
                for intra in [false, true] {
                    let first = if intra { 1u8 } else { 0 };
                    let mut blocks: Vec<Vec<Event>> = Vec::new();
                    for (wa, la) in widths.iter() {
                        for (wb, lb) in widths.iter() {
                            for a in la.iter() {
                                for b in lb.iter() {
                                    for (ra, rb) in [(0u8, 0u8), (2, 5), (0, 61 - first)] {
                                        blocks.push(vec![
                                            Event { run: ra, level: *a, force_escape: true, wide: *wa },
                                            Event { run: rb, level: *b, force_escape: true, wide: *wb },
                                        ]);
                                    }
                                }
                            }
                        }
                    }
                    let size = grid_size(mode);
                    let mut st = H263State::new(options_scal(mode, q == 8));
                    let mut hdr = match mode {
                        Mode::Sorenson => Header::sorenson(version, if intra { PicType::I } else { PicType::P }, size, q),
                        Mode::Standard => Header::standard(if intra { PicType::I } else { PicType::P }, size, q),
                    };
                    hdr.tr = 2;
                    let (mbw, mbh) = hdr.mb_dims().unwrap();
                    let mut k = 0;
                    while k < blocks.len() {
                        let reference = match grey_reference(&mut st, mode, version) {
                            Ok(r) => r,
                            Err(e) => {
                                acc.fail(json!({"kind":"params","suite":"escape_pairs"}), e);
                                return;
                            }
                        };
                        let first_block = k;
                        let mut mbs = Vec::new();
                        for _ in 0..mbw * mbh {
                            let mut mb = Mb::new(if intra { MbKind::Intra } else { MbKind::Inter });
                            for b in 0..6 {
                                mb.blocks[b].dc = 255;
                                if k < blocks.len() {
                                    mb.blocks[b].events = blocks[k].clone();
                                    k += 1;
                                }
                            }
                            mbs.push(mb);
                        }
                        let pic = Pic { hdr: hdr.clone(), mbs, trailing_zero_bits: 0 };
                        let model = match reconstruct(&pic, Some(&reference)) {
                            Ok(m) => m,
                            Err(e) => panic!("HARNESS: invalid escape-pair picture: {}", e),
                        };
                        let res = match decode_bytes(&mut st, &encode_pic(&pic)) {
                            Outcome::Ok => compare_last(&st, &model.expect).map(|_| ()),
                            o => Err(format!("valid picture not decoded: {}", o.short())),
                        };
                        acc.count_n((k - first_block) as u64, (k - first_block) as u64);
                        if let Err(m) = res {
                            acc.fail(
                                json!({"kind":"params","suite":"escape_pairs","mode":mname,"q":q,"intra":intra,"first_block":first_block}),
                                format!("{} q{} {} blocks with two escapes each, blocks {:?} ..: {}", mname, q, if intra { "intra" } else { "inter" }, &blocks[first_block..(first_block + 2).min(blocks.len())], m),
                            );
                            return;
                        }
                    }
                }
            }
        }
        acc.sample(|| json!({"two_escapes": "every ordered pair of escape widths x boundary levels x three run patterns, quantizers 1/8/31, intra and inter, three stream forms"}));
    })
}

/// Blocks in which every coefficient is coded: 63 events in an intra block, 64 in an inter block,
/// all with run 0 (plus the variants ending one and two positions early), levels of both signs in
/// short and escape form.
fn full_blocks_suite() -> SuiteReport {
    simple_suite("every_coefficient_coded", true, |acc| {
        for (mode, version, mname) in MODES {
            for q in [1u8, 5, 31] {
                for intra in [false, true] {
                    let first = if intra { 1usize } else { 0 };
                    let size = grid_size(mode);
                    let mut st = H263State::new(options_scal(mode, q == 5));
                    let reference = match grey_reference(&mut st, mode, version) {
                        Ok(r) => r,
                        Err(e) => {
                            acc.fail(json!({"kind":"params","suite":"full_blocks"}), e);
                            return;
                        }
                    };
                    let mut hdr = match mode {
                        Mode::Sorenson => Header::sorenson(version, if intra { PicType::I } else { PicType::P }, size, q),
                        Mode::Standard => Header::standard(if intra { PicType::I } else { PicType::P }, size, q),
                    };
                    hdr.tr = 2;
                    let (mbw, mbh) = hdr.mb_dims().unwrap();
                    let mut mbs = Vec::new();
                    for n in 0..mbw * mbh {
                        let mut mb = Mb::new(if intra { MbKind::Intra } else { MbKind::Inter });
                        for b in 0..6 {
                            mb.blocks[b].dc = 255;
                            // the last coded position: 63, 62 or 61
                            let last_pos = 63 - (n + b) % 3;
                            let mut ev = Vec::new();
                            for p in first..=last_pos {
                                let mag = 1 + ((p + n + b) % 3) as i16;
                                ev.push(Event { run: 0, level: if (p + b) % 2 == 0 { mag } else { -mag }, force_escape: (p + n) % 11 == 0, wide: false });
                            }
                            mb.blocks[b].events = ev;
                        }
                        mbs.push(mb);
                    }
                    let pic = Pic { hdr, mbs, trailing_zero_bits: 0 };
                    let model = match reconstruct(&pic, Some(&reference)) {
                        Ok(m) => m,
                        Err(e) => panic!("HARNESS: invalid full-block picture: {}", e),
                    };
                    let res = match decode_bytes(&mut st, &encode_pic(&pic)) {
                        Outcome::Ok => compare_last(&st, &model.expect).map(|_| ()),
                        o => Err(format!("valid picture not decoded: {}", o.short())),
                    };
                    acc.count_n((mbw * mbh * 6) as u64, (mbw * mbh * 6) as u64);
                    if let Err(m) = res {
                        acc.fail(json!({"kind":"params","suite":"full_blocks","mode":mname,"q":q,"intra":intra}), format!("{} q{} {} blocks with every coefficient coded ({} events each): {}", mname, q, if intra { "intra" } else { "inter" }, 64 - first, m));
                        return;
                    }
                }
            }
        }
        acc.sample(|| json!({"blocks": "63 (intra) / 64 (inter) events with run 0, also ending 1 and 2 positions early", "quantizers": [1, 5, 31]}));
    })
}

fn block_to_array(b: &hk::DecodedDctBlock) -> [[f32; 8]; 8] {
    let mut a = [[0.0f32; 8]; 8];
    match b {
        hk::DecodedDctBlock::Zero => {}
        hk::DecodedDctBlock::Dc(v) => a[0][0] = *v,
        hk::DecodedDctBlock::Horiz(r) => a[0] = *r,
        hk::DecodedDctBlock::Vert(c) => {
            for i in 0..8 {
                a[i][0] = c[i];
            }
        }
        hk::DecodedDctBlock::Full(f) => a = *f,
    }
    a
}

/// Hook level: `inverse_rle` on constructed blocks returns the coefficient array itself.
/// item = quantizer; inner = every level -1024..=1023 (except 0) x every position x intra/inter.
fn hook_item(i: u64, acc: &mut Acc) {
    let q = (i + 1) as u8;
    let zz = zigzag();
    for level in -1024i16..=1023 {
        if level == 0 {
            continue;
        }
        for pos in 0..64usize {
            for intra in [false, true] {
                if intra && pos == 0 {
                    continue;
                }
                let dc_code = 1 + ((pos as u8).wrapping_mul(7).wrapping_add(q)) % 127;
                let block = hk::Block {
                    intradc: if intra { hk::IntraDc::from_u8(dc_code) } else { None },
                    tcoef: vec![hk::TCoefficient { is_short: false, run: (pos - if intra { 1 } else { 0 }) as u8, level }],
                };
                let mut levels = vec![hk::DecodedDctBlock::Zero; 4];
                let r = guard(|| hk::inverse_rle(&block, &mut levels, (8, 8), 2, q));
                if let Err(p) = r {
                    acc.fail(json!({"kind":"params","suite":"hook","q":q,"level":level,"pos":pos,"intra":intra}), format!("inverse_rle panicked: {}", p));
                    return;
                }
                let got = block_to_array(&levels[3]);
                let mut want = [[0.0f32; 8]; 8];
                if intra {
                    want[0][0] = intradc_level(dc_code) as f32;
                }
                let (r0, c0) = zz[pos];
                want[r0][c0] = dequant(level as i32, q as i32) as f32;
                acc.count(level.abs() >= 2);
                if got != want || !matches!(levels[0], hk::DecodedDctBlock::Zero) {
                    acc.fail(
                        json!({"kind":"params","suite":"hook","q":q,"level":level,"pos":pos,"intra":intra}),
                        format!(
                            "quantizer {}, level {} at zig-zag position {} ({} block): coefficient array has {} at (row {}, col {}), formula gives {}",
                            q, level, pos, if intra { "intra" } else { "inter" }, got[r0][c0], r0, c0, want[r0][c0]
                        ),
                    );
                    return;
                }
            }
        }
    }
    if q == 31 {
        acc.sample(|| json!({"hook": "inverse_rle", "quantizer": q, "levels": "-1024..=1023", "positions": "0..=63", "example": {"level": 1023, "coefficient": dequant(1023, 31)}}));
    }
}

pub fn run(ctx: &Ctx) -> i32 {
    let mut reports = vec![super::regression_suite(ctx)];
    let chunks = 8u64;
    reports.push(exhaustive_suite(ctx, "stream_level_grid", 3 * 31 * 2 * chunks, &move |i, acc| grid_item(i, chunks, acc)));
    reports.push(intradc_suite());
    reports.push(dquant_suite());
    reports.push(escape_pairs_suite());
    reports.push(full_blocks_suite());
    reports.push(exhaustive_suite(ctx, "hook_inverse_rle", 31, &hook_item));
    let exhaustive = reports.iter().skip(1).all(|r| r.exhaustive);
    finish(
        ctx,
        reports,
        Summary {
            rule: "Enumerated completely: quantizer 1..31 x every codable level (102 short events x sign; escapes +-1..127 in standard / Sorenson v0, +-1..63 and +-1..1023 in Sorenson v1) x every zig-zag position x {last, not last} x {intra, inter}, each as one block of a real picture decoded through the public API and compared with the ideal transform of the specified coefficient (C02 tie rule); all 256 INTRADC codes (0 and 128 must be rejected, 255 -> 1024) in I and P pictures; PQUANT 1..31 x every chain of three DQUANT values from {-2,-1,1,2} (reaching both clamps and walking back from them); blocks with two escape-coded events in every ordered combination of escape widths and boundary levels; blocks with every coefficient coded (63 / 64 events); DQUANT carried by macroblocks without any coded block; and, through the verif-hooks re-export of the run-length decoder, the coefficient array itself for every quantizer x level -1024..1023 x position, compared for equality with sign(L)(Q(2|L|+1)-[Q even]) saturated to -2048..2047. Non-trivial = |level| >= 2 or escape form; every enumerated case is distinct.",
            assumptions: vec!["pixel-level observation blurs a +-1 coefficient error unless it crosses a rounding boundary; the hook-level suite removes that blur".into()],
            exhaustive,
            extra: Map::new(),
        },
    )
}

pub fn replay(suite: &str, case: &Value) -> Option<Verdict> {
    let from_acc = |acc: Acc| match acc.failure {
        Some((_, _, m, _)) => Verdict::fail(m),
        None => Verdict::pass(true, 0),
    };
    match suite {
        "stream_level_grid" => {
            let mut acc = Acc::default();
            grid_item(case["item"].as_u64()?, case["chunks"].as_u64().unwrap_or(8), &mut acc);
            Some(from_acc(acc))
        }
        "hook_inverse_rle" => {
            let mut acc = Acc::default();
            hook_item(case["q"].as_u64()? - 1, &mut acc);
            Some(from_acc(acc))
        }
        "intradc_all_codes" => Some(match intradc_suite().failure {
            Some(f) => Verdict::fail(f.msg),
            None => Verdict::pass(true, 0),
        }),
        "dquant_updates" => Some(match dquant_suite().failure {
            Some(f) => Verdict::fail(f.msg),
            None => Verdict::pass(true, 0),
        }),
        "every_coefficient_coded" => Some(match full_blocks_suite().failure {
            Some(f) => Verdict::fail(f.msg),
            None => Verdict::pass(true, 0),
        }),
        "two_escapes_in_one_block" => Some(match escape_pairs_suite().failure {
            Some(f) => Verdict::fail(f.msg),
            None => Verdict::pass(true, 0),
        }),
        _ => None,
    }
}
