//! C10 - the inverse DCT meets the H.263 Annex A accuracy requirements.

use crate::gen::Gen;
use crate::model::recon::{fdct_f64, idct_f64};
use crate::runner::*;
use h263_rs::verif_hooks as hk;
use serde_json::{json, Map, Value};

/// The pseudo-random generator prescribed by IEEE 1180 / H.263 Annex A.
struct IeeeRand {
    randx: i64,
}

impl IeeeRand {
    fn new(seed: i64) -> Self {
        IeeeRand { randx: seed }
    }
    fn next(&mut self, l: i64, h: i64) -> i64 {
        // 32-bit `long` arithmetic of the reference C code
        self.randx = (self.randx.wrapping_mul(1103515245).wrapping_add(12345)) as i32 as i64;
        let i = self.randx & 0x7ffffffe;
        let x = (i as f64) / (0x7fffffff as f64) * ((l + h + 1) as f64);
        (x as i64) - l
    }
}

/// Classify a coefficient block the way the run-length stage does and wrap it for `idct_channel`.
fn to_block(c: &[[i32; 8]; 8]) -> hk::DecodedDctBlock {
    let mut row = true; // non-zero only in first row
    let mut col = true;
    for v in 0..8 {
        for u in 0..8 {
            if c[v][u] != 0 {
                if v > 0 {
                    row = false;
                }
                if u > 0 {
                    col = false;
                }
            }
        }
    }
    match (row, col) {
        (true, true) => {
            if c[0][0] == 0 {
                hk::DecodedDctBlock::Zero
            } else {
                hk::DecodedDctBlock::Dc(c[0][0] as f32)
            }
        }
        (true, false) => {
            let mut r = [0.0f32; 8];
            for u in 0..8 {
                r[u] = c[0][u] as f32;
            }
            hk::DecodedDctBlock::Horiz(r)
        }
        (false, true) => {
            let mut r = [0.0f32; 8];
            for v in 0..8 {
                r[v] = c[v][0] as f32;
            }
            hk::DecodedDctBlock::Vert(r)
        }
        _ => {
            let mut f = [[0.0f32; 8]; 8];
            for v in 0..8 {
                for u in 0..8 {
                    f[v][u] = c[v][u] as f32;
                }
            }
            hk::DecodedDctBlock::Full(f)
        }
    }
}

/// Run the decoder's channel IDCT on `blocks` twice (over a 0 plane and over a 255 plane) and
/// recover the clipped residual of every sample on -255..=255.
fn decoder_idct(blocks: &[[[i32; 8]; 8]]) -> Result<Vec<[[i32; 8]; 8]>, String> {
    let n = blocks.len();
    let levels: Vec<hk::DecodedDctBlock> = blocks.iter().map(to_block).collect();
    let w = n * 8;
    let mut lo = vec![0u8; w * 8];
    let mut hi = vec![255u8; w * 8];
    guard(|| hk::idct_channel(&levels, &mut lo, n, w)).map_err(|p| format!("idct_channel panicked: {}", p))?;
    guard(|| hk::idct_channel(&levels, &mut hi, n, w)).map_err(|p| format!("idct_channel panicked: {}", p))?;
    let mut out = vec![[[0i32; 8]; 8]; n];
    for b in 0..n {
        for y in 0..8 {
            for x in 0..8 {
                let i = b * 8 + x + y * w;
                let pos = lo[i] as i32;
                let neg = hi[i] as i32 - 255;
                out[b][y][x] = if pos > 0 { pos } else { neg };
            }
        }
    }
    Ok(out)
}

fn reference_idct(c: &[[i32; 8]; 8]) -> [[i32; 8]; 8] {
    let mut f = [[0.0f64; 8]; 8];
    for v in 0..8 {
        for u in 0..8 {
            f[v][u] = c[v][u] as f64;
        }
    }
    let r = idct_f64(&f);
    let mut o = [[0i32; 8]; 8];
    for y in 0..8 {
        for x in 0..8 {
            // -256 cannot be told from -255 through a u8 plane: the comparison range is -255..=255
            o[y][x] = (r[y][x].round() as i32).clamp(-255, 255);
        }
    }
    o
}

pub struct AnnexAStats {
    pub peak: i32,
    pub pmse: f64,
    pub omse: f64,
    pub pme: f64,
    pub ome: f64,
}

/// One Annex A data set: 10 000 blocks in (-l, h), optionally negated.
fn annex_a_set(seed: i64, l: i64, h: i64, negate: bool, n: usize) -> Result<AnnexAStats, String> {
    let mut rng = IeeeRand::new(seed);
    let mut blocks = Vec::with_capacity(n);
    for _ in 0..n {
        let mut px = [[0.0f64; 8]; 8];
        for y in 0..8 {
            for x in 0..8 {
                let v = rng.next(l, h);
                px[y][x] = if negate { -v } else { v } as f64;
            }
        }
        let f = fdct_f64(&px);
        let mut c = [[0i32; 8]; 8];
        for v in 0..8 {
            for u in 0..8 {
                c[v][u] = (f[v][u].round() as i32).clamp(-2048, 2047);
            }
        }
        blocks.push(c);
    }
    let got = decoder_idct(&blocks)?;
    let mut peak = 0;
    let mut se = [[0.0f64; 8]; 8];
    let mut me = [[0.0f64; 8]; 8];
    for (b, c) in blocks.iter().enumerate() {
        let want = reference_idct(c);
        for y in 0..8 {
            for x in 0..8 {
                let e = got[b][y][x] - want[y][x];
                peak = peak.max(e.abs());
                se[y][x] += (e * e) as f64;
                me[y][x] += e as f64;
            }
        }
    }
    let nf = n as f64;
    let mut pmse: f64 = 0.0;
    let mut pme: f64 = 0.0;
    let mut omse = 0.0;
    let mut ome = 0.0;
    for y in 0..8 {
        for x in 0..8 {
            pmse = pmse.max(se[y][x] / nf);
            pme = pme.max((me[y][x] / nf).abs());
            omse += se[y][x];
            ome += me[y][x];
        }
    }
    Ok(AnnexAStats { peak, pmse, omse: omse / (64.0 * nf), pme, ome: (ome / (64.0 * nf)).abs() })
}

const RANGES: [(i64, i64); 3] = [(256, 255), (5, 5), (300, 300)];

fn annex_a_item(seed_base: u64, i: u64, acc: &mut Acc) {
    // item = (seed index, range, negate)
    let negate = i % 2 == 1;
    let (l, h) = RANGES[((i / 2) % 3) as usize];
    let k = i / 6;
    // seed index 0 is the prescribed seed 1; further seeds derive from VERIF_SEED
    let seed = if k == 0 { 1 } else { ((seed_base.wrapping_mul(0x9E3779B97F4A7C15) >> 33) as i64 + k as i64 * 7919) & 0x7fffffff };
    match annex_a_set(seed, l, h, negate, 10_000) {
        Err(m) => acc.fail(json!({"kind":"params","item":i}), m),
        Ok(s) => {
            acc.count_n(10_000, 10_000);
            let ok = s.peak <= 1 && s.pmse <= 0.06 && s.omse <= 0.02 && s.pme <= 0.015 && s.ome <= 0.0015;
            if !ok {
                acc.fail(
                    json!({"kind":"params","item":i}),
                    format!(
                        "Annex A set range (-{},{}){} seed {}: peak {} (<=1), pmse {:.5} (<=0.06), omse {:.5} (<=0.02), pme {:.5} (<=0.015), ome {:.6} (<=0.0015)",
                        l, h, if negate { " negated" } else { "" }, seed, s.peak, s.pmse, s.omse, s.pme, s.ome
                    ),
                );
            }
            if i == 0 {
                acc.sample(|| json!({"range": [-l, h], "seed": seed, "blocks": 10000, "peak": s.peak, "pmse": s.pmse, "omse": s.omse, "pme": s.pme, "ome": s.ome}));
            }
        }
    }
}

fn dc_and_zero_suite() -> SuiteReport {
    simple_suite("zero_and_all_dc_blocks", true, |acc| {
        // all-zero block, in every representation the decoder has for it
        let zero = [[[0i32; 8]; 8]];
        let variants: Vec<hk::DecodedDctBlock> = vec![
            hk::DecodedDctBlock::Zero,
            hk::DecodedDctBlock::Dc(0.0),
            hk::DecodedDctBlock::Horiz([0.0; 8]),
            hk::DecodedDctBlock::Vert([0.0; 8]),
            hk::DecodedDctBlock::Full([[0.0; 8]; 8]),
        ];
        for (k, v) in variants.iter().enumerate() {
            for fill in [0u8, 128, 255] {
                let mut plane = vec![fill; 64];
                if let Err(p) = guard(|| hk::idct_channel(std::slice::from_ref(v), &mut plane, 1, 8)) {
                    acc.fail(json!({"kind":"params","suite":"zero","variant":k}), format!("panicked: {}", p));
                    return;
                }
                acc.count(false);
                if plane.iter().any(|s| *s != fill) {
                    acc.fail(json!({"kind":"params","suite":"zero","variant":k}), format!("all-zero block (representation {}) changed a plane of {}", k, fill));
                    return;
                }
            }
        }
        let _ = zero;
        // every DC-only block
        let blocks: Vec<[[i32; 8]; 8]> = (-2048..=2047)
            .map(|dc| {
                let mut c = [[0i32; 8]; 8];
                c[0][0] = dc;
                c
            })
            .collect();
        match decoder_idct(&blocks) {
            Err(m) => acc.fail(json!({"kind":"params","suite":"dc"}), m),
            Ok(got) => {
                for (b, c) in blocks.iter().enumerate() {
                    let want = reference_idct(c);
                    acc.count(true);
                    for y in 0..8 {
                        for x in 0..8 {
                            if (got[b][y][x] - want[y][x]).abs() > 1 {
                                acc.fail(
                                    json!({"kind":"params","suite":"dc","dc":c[0][0]}),
                                    format!("DC-only block {}: sample ({},{}) = {}, double-precision reference {}", c[0][0], x, y, got[b][y][x], want[y][x]),
                                );
                                return;
                            }
                        }
                    }
                }
                acc.sample(|| json!({"dc_only_blocks": "-2048..=2047", "zero_block_representations": 5}));
            }
        }
    })
}

/// Run the channel IDCT on `blocks` laid out `per_line` to a row over planes of
/// `per_line*8 - crop_x` x `rows*8 - crop_y` samples (the decoder hands over planes of the picture
/// size, which crop the last block column / row) holding three predictions: all 0, all 255 and a
/// textured one. Every visible sample must be within 1 of clip(prediction + ideal residual).
fn check_layout(blocks: &[[[i32; 8]; 8]], per_line: usize, crop_x: usize, crop_y: usize, tex_seed: u64) -> Result<(), String> {
    let n = blocks.len();
    let rows = (n + per_line - 1) / per_line;
    let levels: Vec<hk::DecodedDctBlock> = blocks.iter().map(to_block).collect();
    let w = per_line * 8 - crop_x;
    let h = rows * 8 - crop_y;
    let wants: Vec<[[i32; 8]; 8]> = blocks.iter().map(reference_idct).collect();
    let tex = super::content_bytes(tex_seed, w * h);
    for (pi, pred) in [vec![0u8; w * h], vec![255u8; w * h], tex].into_iter().enumerate() {
        let mut out = pred.clone();
        guard(|| hk::idct_channel(&levels, &mut out, per_line, w)).map_err(|p| format!("idct_channel({} blocks, {} per line, plane {}x{}) panicked: {}", n, per_line, w, h, p))?;
        for y in 0..h {
            for x in 0..w {
                let b = x / 8 + (y / 8) * per_line;
                let r = wants[b][y % 8][x % 8];
                let want = (pred[x + y * w] as i32 + r).clamp(0, 255);
                let got = out[x + y * w] as i32;
                if (got - want).abs() > 1 {
                    return Err(format!(
                        "block {} of {} ({} per line, plane {}x{}, prediction {}): sample ({},{}) of block {:?} over prediction {} = {}, double-precision reference gives {}",
                        b,
                        n,
                        per_line,
                        w,
                        h,
                        ["all 0", "all 255", "textured"][pi],
                        x % 8,
                        y % 8,
                        blocks.get(b),
                        pred[x + y * w],
                        got,
                        want
                    ));
                }
            }
        }
    }
    Ok(())
}

/// Sparse / dense random blocks from the tape: peak error <= 1 for every shape, in any order and
/// arrangement.
fn sparse_case(g: &mut Gen) -> Verdict {
    let case_shape = g.below(4); // 0 first row, 1 first column, 2 dense, 3 few coefficients anywhere
    let mixed = g.chance(1, 2); // every block its own shape
    let n = g.range(1, 24) as usize;
    let mut blocks: Vec<[[i32; 8]; 8]> = Vec::with_capacity(n);
    let mut repeated = 0usize;
    for _ in 0..n {
        if !blocks.is_empty() && g.chance(1, 4) {
            // the same block again, somewhere after other blocks
            let k = g.below(blocks.len() as u32) as usize;
            let b = blocks[k];
            blocks.push(b);
            repeated += 1;
            continue;
        }
        let shape = if mixed { g.below(6) } else { case_shape };
        let mut c = [[0i32; 8]; 8];
        let amp = match g.weighted(&[3, 3, 2]) {
            0 => 2047,
            1 => 300,
            _ => 20,
        };
        let mut put = |g: &mut Gen, v: usize, u: usize| {
            let x = g.range_around(-amp - 1, amp, 0) as i32;
            c[v][u] = x.clamp(-2048, 2047);
        };
        match shape {
            0 => {
                let dense = g.bool();
                for u in 0..8 {
                    if dense || g.bool() {
                        put(g, 0, u);
                    }
                }
            }
            1 => {
                let dense = g.bool();
                for v in 0..8 {
                    if dense || g.bool() {
                        put(g, v, 0);
                    }
                }
            }
            2 => {
                // dense blocks: keep total energy plausible (pixel range), as Annex A data has
                for v in 0..8 {
                    for u in 0..8 {
                        let a = (amp / (1 + v + u) as i64).max(1);
                        c[v][u] = g.range_around(-a, a, 0) as i32;
                    }
                }
            }
            3 => {
                let k = g.range(1, 4);
                for _ in 0..k {
                    let v = g.below(8) as usize;
                    let u = g.below(8) as usize;
                    put(g, v, u);
                }
            }
            5 => {
                // two rows (or columns) of strong coefficients, v = 0 and v = 4, equal up to small
                // deviations: huge intermediate values, half of the output lines small
                let rows = g.bool();
                let n = g.range(3, 8) as usize;
                for k in 0..n {
                    let big = (if g.bool() { 1 } else { -1 }) * g.range(1300, 2047) as i32;
                    let other = (if g.bool() { 1 } else { -1 }) * (big + g.range_around(-60, 60, 0) as i32);
                    let (a, b) = if rows { ((0usize, k), (4usize, k)) } else { ((k, 0usize), (k, 4usize)) };
                    c[a.0][a.1] = big.clamp(-2048, 2047);
                    c[b.0][b.1] = other.clamp(-2048, 2047);
                }
            }
            _ => {
                // DC only / all zero
                if g.bool() {
                    put(g, 0, 0);
                }
            }
        }
        blocks.push(c);
    }
    // arrangement: one row of blocks, or several rows; the plane may crop the last column / row
    // (whole rows of blocks only, and at most 15 samples cropped, as for a plane of macroblocks)
    let mut per_line = if g.chance(1, 2) { n } else { g.range(1, n as i64) as usize };
    if n % per_line != 0 {
        if n / per_line == 0 {
            per_line = n;
        } else {
            blocks.truncate(n - n % per_line);
        }
    }
    let n = blocks.len();
    let rows = n / per_line;
    let (crop_x, crop_y) = if g.chance(1, 3) { (g.below(if per_line >= 2 { 16 } else { 8 }) as usize, g.below(if rows >= 2 { 16 } else { 8 }) as usize) } else { (0, 0) };
    let tex_seed = g.word() as u64;
    let shape_name = if mixed { "mixed" } else { ["first row", "first column", "dense", "few coefficients"][case_shape as usize] };
    g.describe(|| json!({"shape": shape_name, "blocks": n, "per_line": per_line, "crop": [crop_x, crop_y], "repeated_blocks": repeated, "texture_seed": tex_seed, "first": format!("{:?}", blocks[0])}));
    if let Err(m) = check_layout(&blocks, per_line, crop_x, crop_y, tex_seed) {
        return Verdict::fail(m);
    }
    let mut nontrivial = false;
    let mut key = case_shape as u64 ^ ((per_line as u64) << 8);
    for c in blocks.iter() {
        let nz = c.iter().flatten().filter(|v| **v != 0).count();
        nontrivial |= nz >= 2;
        for row in c.iter() {
            for v in row.iter() {
                key = key.wrapping_mul(0x100000001b3) ^ (*v as u64 & 0xFFFF);
            }
        }
    }
    let mut l: Labels = vec![if mixed { "shape: mixed per block" } else { ["shape: first row", "shape: first column", "shape: dense", "shape: few coefficients"][case_shape as usize] }];
    if repeated > 0 {
        l.push("a block repeated later in the same plane");
    }
    if per_line < n {
        l.push("several rows of blocks");
    }
    if crop_x + crop_y > 0 {
        l.push("plane crops the last blocks");
    }
    Verdict::pass_l(nontrivial, key, l)
}

pub fn run(ctx: &Ctx) -> i32 {
    let mut reports = vec![super::regression_suite(ctx)];
    let seeds = ctx.tier.pick(6u64, 41u64);
    let seed = ctx.seed;
    reports.push(exhaustive_suite(ctx, "annex_a_procedure", 6 * seeds, &move |i, acc| annex_a_item(seed, i, acc)));
    reports.push(dc_and_zero_suite());
    let cases = ctx.tier.pick(200_000u64, 3_000_000u64);
    reports.push(tape_suite(ctx, "sparse_and_dense_blocks", cases, 1700, &sparse_case));
    let mut extra = Map::new();
    extra.insert("annex_a_sets".into(), json!(format!("{} seeds (the prescribed seed 1 first) x ranges (-256,255) (-5,5) (-300,300) x sign", seeds)));
    finish(
        ctx,
        reports,
        Summary {
            rule: "annex_a_procedure: the Annex A / IEEE 1180 procedure verbatim - prescribed generator (randx*1103515245+12345), 10 000 blocks per range and sign, double-precision forward DCT rounded and clipped to 12 bits, double-precision inverse as reference - against the decoder's channel IDCT called through the verif-hooks re-export over a 0 plane and a 255 plane (which together reveal the clipped residual on -255..255); criteria peak<=1, pmse<=0.06, omse<=0.02, pme<=0.015, ome<=0.0015. zero_and_all_dc_blocks: the all-zero block in all five representations leaves planes untouched; all 4096 DC-only blocks have peak error <= 1. sparse_and_dense_blocks: tape-generated first-row, first-column, dense, few-coefficient, near-cancelling strong-row, DC and zero blocks over -2048..2047 (one shape per case or mixed per block, a quarter of the blocks repeating an earlier block of the same call), arranged in one or several rows of blocks over planes that may crop the last block column / row, transformed over an all-0, an all-255 and a textured prediction plane: every sample within 1 of clip(prediction + double-precision residual). Non-trivial = block with >= 2 non-zero coefficients.",
            assumptions: vec![
                "-256 is indistinguishable from -255 through a u8 plane; the reference is clipped to -255..255 for the comparison".into(),
                "blocks are handed to the IDCT classified (zero / DC / first row / first column / full) the way the run-length stage classifies them".into(),
            ],
            exhaustive: false,
            extra,
        },
    )
}

pub fn replay(suite: &str, case: &Value) -> Option<Verdict> {
    match suite {
        "sparse_and_dense_blocks" => Some(sparse_case(&mut Gen::new(&super::tape_of(case)?))),
        "annex_a_procedure" => {
            let mut acc = Acc::default();
            annex_a_item(case["seed"].as_u64().unwrap_or(1), case["item"].as_u64()?, &mut acc);
            Some(match acc.failure {
                Some((_, _, m, _)) => Verdict::fail(m),
                None => Verdict::pass(true, 0),
            })
        }
        "zero_and_all_dc_blocks" => Some(match dc_and_zero_suite().failure {
            Some(f) => Verdict::fail(f.msg),
            None => Verdict::pass(true, 0),
        }),
        _ => None,
    }
}
