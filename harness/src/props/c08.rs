//! C08 - RGBA output pairs every luma sample with its 4:2:0 chroma sample, at any size.

use crate::bits::fnv64;
use crate::gen::Gen;
use crate::model::yuv::*;
use crate::runner::*;
use h263_rs_yuv::bt601::yuv420_to_rgba;
use serde_json::{json, Map, Value};

/// One plane in a given style. 0 random bytes, 1 extremes, 2 per-position-unique pattern, 3 flat,
/// 4 every row identical, 5 every column identical, 6 rows repeated in pairs starting at an odd
/// row (row 2k+1 == row 2k+2, i.e. equal rows that straddle a chroma-row boundary), 7 two-valued
/// 4x4 tiles.
fn fill_plane(w: usize, h: usize, style: u32, salt: usize, src: &mut dyn FnMut() -> u8) -> Vec<u8> {
    let mut p = vec![0u8; w * h];
    match style {
        0 => {
            for v in p.iter_mut() {
                *v = src();
            }
        }
        1 => {
            for v in p.iter_mut() {
                *v = if src() & 1 == 0 { 0 } else { 255 };
            }
        }
        2 => {
            let off = src() as usize;
            let (a, b) = [(7usize, 31usize), (13, 53), (29, 11)][salt % 3];
            for py in 0..h {
                for px in 0..w {
                    p[px + py * w] = (px * a + py * b + off + salt * 17) as u8;
                }
            }
        }
        3 => {
            let v = src();
            for x in p.iter_mut() {
                *x = v;
            }
        }
        4 => {
            let row: Vec<u8> = (0..w).map(|_| src()).collect();
            for py in 0..h {
                p[py * w..(py + 1) * w].copy_from_slice(&row);
            }
        }
        5 => {
            let col: Vec<u8> = (0..h).map(|_| src()).collect();
            for py in 0..h {
                for px in 0..w {
                    p[px + py * w] = col[py];
                }
            }
        }
        6 => {
            let mut prev: Vec<u8> = (0..w).map(|_| src()).collect();
            for py in 0..h {
                if py % 2 == 1 {
                    prev = (0..w).map(|_| src()).collect();
                }
                p[py * w..(py + 1) * w].copy_from_slice(&prev);
            }
        }
        _ => {
            let (a, b) = (src(), src());
            for py in 0..h {
                for px in 0..w {
                    p[px + py * w] = if (px / 4 + py / 4) % 2 == 0 { a } else { b };
                }
            }
        }
    }
    p
}

/// Family 4: contents full of coincidences between neighbours. Every plane is assembled from a
/// small pool of row templates (the two chroma planes share one pool, so a Cb row often equals a
/// Cr row, the row above, or both), and every template is written with an alphabet of one to
/// three values (black level, mid-grey, the clamping values, ...) in runs of 1, 2 or 4 samples,
/// so equal groups of four, equal rows and "special" values turn up next to different ones all
/// the time. A conversion that remembers, skips or special-cases anything by looking at its
/// neighbours has to get all of these right.
fn repeating_planes(w: usize, h: usize, src: &mut dyn FnMut() -> u8) -> (Vec<u8>, Vec<u8>, Vec<u8>) {
    const NOTABLE: [u8; 16] = [0, 1, 15, 16, 17, 127, 128, 129, 128, 16, 234, 235, 236, 240, 254, 255];
    let cw = (w + 1) / 2;
    let ch = (h + 1) / 2;
    let mut value = |src: &mut dyn FnMut() -> u8| -> u8 {
        let a = src();
        if a & 1 == 0 {
            NOTABLE[(a >> 1) as usize % 16]
        } else {
            src()
        }
    };
    let mut alphabet = |src: &mut dyn FnMut() -> u8| -> Vec<u8> {
        let n = 1 + src() as usize % 3;
        (0..n).map(|_| value(src)).collect()
    };
    let ay = alphabet(src);
    let ac = if src() % 4 == 0 { vec![128u8] } else { alphabet(src) };
    let mut template = |len: usize, alpha: &[u8], src: &mut dyn FnMut() -> u8| -> Vec<u8> {
        let run = [1usize, 2, 4, 4][src() as usize % 4];
        let mut row = Vec::with_capacity(len);
        let mut cur = alpha[0];
        for x in 0..len {
            if x % run == 0 {
                cur = alpha[src() as usize % alpha.len()];
            }
            row.push(cur);
        }
        row
    };
    let ny = 1 + src() as usize % 3;
    let nc = 1 + src() as usize % 3;
    let ty: Vec<Vec<u8>> = (0..ny).map(|_| template(w, &ay, src)).collect();
    let tc: Vec<Vec<u8>> = (0..nc).map(|_| template(cw, &ac, src)).collect();
    let mut y = Vec::with_capacity(w * h);
    for _ in 0..h {
        y.extend_from_slice(&ty[src() as usize % ny]);
    }
    let mut cb = Vec::with_capacity(cw * ch);
    let mut cr = Vec::with_capacity(cw * ch);
    for _ in 0..ch {
        let k = src() as usize;
        cb.extend_from_slice(&tc[k % nc]);
        cr.extend_from_slice(&tc[(k / 4) % nc]);
    }
    (y, cb, cr)
}

/// Family 5: uniform planes with a few deviating samples. Every plane is flat (mid-grey chroma and
/// black / white / mid luma are favoured) except for one to three samples, which sit in the last
/// or first column / row of the plane more often than not. A conversion that classifies a row, a
/// band or the whole picture as "uniform" by looking at part of it gets these wrong.
fn sparse_planes(w: usize, h: usize, src: &mut dyn FnMut() -> u8) -> (Vec<u8>, Vec<u8>, Vec<u8>) {
    let cw = (w + 1) / 2;
    let ch = (h + 1) / 2;
    let mut plane = |pw: usize, ph: usize, favourite: u8, src: &mut dyn FnMut() -> u8| -> Vec<u8> {
        let base = match src() % 4 {
            0 | 1 => favourite,
            2 => [0u8, 16, 235, 255][src() as usize % 4],
            _ => src(),
        };
        let mut p = vec![base; pw * ph];
        if pw * ph == 0 {
            return p;
        }
        let n = src() % 4; // 0..3 deviating samples
        for _ in 0..n {
            let x = match src() % 4 {
                0 | 1 => pw - 1,
                2 => 0,
                _ => src() as usize * 251 % pw,
            };
            let y = match src() % 4 {
                0 => ph - 1,
                1 => 0,
                _ => src() as usize * 241 % ph,
            };
            let v = src();
            p[x + y * pw] = if v == base { base.wrapping_add(37) } else { v };
        }
        p
    };
    let y = plane(w, h, 16, src);
    let cb = plane(cw, ch, 128, src);
    let cr = plane(cw, ch, 128, src);
    (y, cb, cr)
}

/// Family 6: chroma planes whose samples *average* exactly 128 without being 128: values come in
/// pairs 128 + k / 128 - k scattered over the plane (complementary colours in equal amounts). Sums,
/// averages and other whole-plane statistics cannot tell these from colourless planes.
fn balanced_planes(w: usize, h: usize, src: &mut dyn FnMut() -> u8) -> (Vec<u8>, Vec<u8>, Vec<u8>) {
    let cw = (w + 1) / 2;
    let ch = (h + 1) / 2;
    let y: Vec<u8> = (0..w * h).map(|_| src()).collect();
    let mut plane = |src: &mut dyn FnMut() -> u8| -> Vec<u8> {
        let n = cw * ch;
        let mut p = vec![128u8; n];
        let mut idx: Vec<usize> = (0..n).collect();
        // a cheap shuffle
        for i in (1..n).rev() {
            let j = (src() as usize * 256 + src() as usize) % (i + 1);
            idx.swap(i, j);
        }
        for pair in idx.chunks(2) {
            if pair.len() == 2 {
                let k = 1 + src() % 127;
                p[pair[0]] = 128 + k;
                p[pair[1]] = 128 - k;
            }
        }
        p
    };
    let cb = plane(src);
    let cr = plane(src);
    (y, cb, cr)
}

/// Plane content families. 0: random bytes; 1: extremes; 2: per-position-unique pattern so a
/// shifted / mirrored / interpolated sample is always visible; 3: every plane gets its own
/// independently chosen structured style (flat / repeated rows / repeated columns / ... ), e.g.
/// flat luma over varying chroma. 4: see `repeating_planes`.
pub const FAMILIES: u32 = 7;
pub fn planes(w: usize, h: usize, family: u32, src: &mut dyn FnMut() -> u8) -> (Vec<u8>, Vec<u8>, Vec<u8>) {
    let cw = (w + 1) / 2;
    let ch = (h + 1) / 2;
    match family {
        4 => repeating_planes(w, h, src),
        5 => sparse_planes(w, h, src),
        6 => balanced_planes(w, h, src),
        0 | 1 | 2 => (fill_plane(w, h, family, 0, src), fill_plane(cw, ch, family, 1, src), fill_plane(cw, ch, family, 2, src)),
        _ => {
            let sy = [3u32, 4, 5, 6, 7, 3, 6, 0][(src() % 8) as usize];
            let sb = [0u32, 2, 4, 5, 3, 7, 2, 0][(src() % 8) as usize];
            let sr = [2u32, 0, 5, 4, 7, 3, 0, 2][(src() % 8) as usize];
            (fill_plane(w, h, sy, 0, src), fill_plane(cw, ch, sb, 1, src), fill_plane(cw, ch, sr, 2, src))
        }
    }
}

fn check_picture(w: usize, y: &[u8], cb: &[u8], cr: &[u8]) -> Result<(), String> {
    check_picture_at(w, y, cb, cr, (0, 0, 0))
}

/// As `check_picture`, but the three planes are handed over as sub-slices starting `offs` bytes
/// into larger buffers (callers pass slices of packed frames; nothing promises any alignment).
pub fn check_picture_at(w: usize, y: &[u8], cb: &[u8], cr: &[u8], offs: (usize, usize, usize)) -> Result<(), String> {
    let h = if w == 0 { 0 } else { y.len() / w };
    let pad = |p: &[u8], k: usize| -> Vec<u8> {
        let mut v = vec![0xEEu8; k];
        v.extend_from_slice(p);
        v.extend_from_slice(&[0xDD; 3]);
        v
    };
    let (by, bb, br) = (pad(y, offs.0), pad(cb, offs.1), pad(cr, offs.2));
    let (sy, sb, sr) = (&by[offs.0..offs.0 + y.len()], &bb[offs.1..offs.1 + cb.len()], &br[offs.2..offs.2 + cr.len()]);
    let out = guard(|| yuv420_to_rgba(sy, sb, sr, w)).map_err(|p| format!("yuv420_to_rgba({}x{}, planes at byte offsets {:?} of their buffers) panicked: {}", w, h, offs, p))?;
    let want = picture_rgba(y, cb, cr, w);
    if out.len() != want.len() {
        return Err(format!("{}x{}: output has {} bytes, expected {}", w, h, out.len(), want.len()));
    }
    if out != want {
        let i = out.iter().zip(want.iter()).position(|(a, b)| a != b).unwrap();
        let p = i / 4;
        let (px, py) = (p % w, p / w);
        let cw = (w + 1) / 2;
        return Err(format!(
            "{}x{}: pixel ({},{}) = {:?} but conversion of luma {} with chroma ({},{}) at chroma position ({},{}) is {:?}",
            w, h, px, py, &out[p * 4..p * 4 + 4], y[p], cb[px / 2 + (py / 2) * cw], cr[px / 2 + (py / 2) * cw], px / 2, py / 2, &want[p * 4..p * 4 + 4]
        ));
    }
    Ok(())
}

fn size_labels(w: usize, h: usize) -> Labels {
    let mut l: Labels = Vec::new();
    l.push(match w % 4 {
        0 => "w%4=0",
        1 => "w%4=1",
        2 => "w%4=2",
        _ => "w%4=3",
    });
    l.push(if h % 2 == 0 { "h even" } else { "h odd" });
    if w == 1 {
        l.push("1 column");
    }
    if h == 1 {
        l.push("1 row");
    }
    if w >= 8 {
        l.push("several SIMD groups");
    }
    l
}

fn grid_item(ctx_seed: u64, wmax: u64, i: u64, acc: &mut Acc) {
    let w = (i % wmax + 1) as usize;
    let h = (i / wmax + 1) as usize;
    for family in 0..FAMILIES {
        let bytes = super::content_bytes(ctx_seed ^ ((w as u64) << 20) ^ ((h as u64) << 8) ^ family as u64, w * h * 2 + 32);
        let mut k = 0;
        let mut src = || {
            k += 1;
            bytes[(k - 1) % bytes.len()]
        };
        let (y, cb, cr) = planes(w, h, family, &mut src);
        // plane base addresses at every residue mod 4 over the grid
        let offs = ((w + family as usize) % 4, (h + family as usize) % 4, (w + h) % 4);
        if let Err(m) = check_picture_at(w, &y, &cb, &cr, offs) {
            acc.fail(json!({"kind":"params","w":w,"h":h,"family":family}), m);
            return;
        }
        let nontrivial = w % 4 != 0 || h % 2 == 1 || w >= 8;
        acc.count(nontrivial);
    }
    for l in size_labels(w, h) {
        acc.label_n(l, FAMILIES as u64);
    }
    if w == 7 && h == 3 {
        acc.sample(|| json!({"w": w, "h": h, "families": ["hash bytes", "extremes", "position-unique", "structured planes", "repeating rows / groups / notable values", "uniform planes with a few deviating samples", "chroma balanced around 128"]}));
    }
}

fn random_case(g: &mut Gen, wmax: i64, hmax: i64) -> Verdict {
    let w = if g.chance(1, 4) { g.range(1, 12) } else { g.range(1, wmax) } as usize;
    let h = if g.chance(1, 4) { g.range(1, 6) } else { g.range(1, hmax) } as usize;
    // keep the tape usage bounded: larger pictures use the pattern families more often
    let family = if w * h > 1500 { *g.pick(&[2u32, 3, 4, 5]) } else { g.below(FAMILIES) };
    let offs = (g.below(4) as usize, g.below(4) as usize, g.below(4) as usize);
    let mut src = || g.byte();
    let (y, cb, cr) = planes(w, h, family, &mut src);
    g.describe(|| json!({"w": w, "h": h, "family": family, "plane_offsets": [offs.0, offs.1, offs.2], "y_head": &y[..y.len().min(16)]}));
    match check_picture_at(w, &y, &cb, &cr, offs) {
        Err(m) => Verdict::fail(m),
        Ok(()) => {
            let nontrivial = w % 4 != 0 || h % 2 == 1 || w >= 8;
            let mut key = fnv64(&y);
            key = crate::bits::fnv64_extend(key, &cb);
            key = crate::bits::fnv64_extend(key, &cr);
            key ^= (w as u64) << 48;
            Verdict::pass_l(nontrivial, key, size_labels(w, h))
        }
    }
}

/// Consecutive conversions of pictures that differ in a few samples only (successive frames of a
/// still scene): nothing a call keeps from the one before - a memo keyed on part of the planes, a
/// reused output buffer - may reach the next result.
fn sibling_case(g: &mut Gen) -> Verdict {
    let w = g.range(1, 40) as usize;
    let h = g.range(1, (900 / w as i64).clamp(1, 30)) as usize;
    let family = g.below(FAMILIES);
    let mut src = || g.byte();
    let (mut y, mut cb, mut cr) = planes(w, h, family, &mut src);
    let first = (y.clone(), cb.clone(), cr.clone());
    let steps = g.range(1, 4) as usize;
    let mut moved: Vec<(u8, usize)> = Vec::new();
    g.describe(|| json!({"w": w, "h": h, "family": family, "calls": steps + 1, "y_head": &y[..y.len().min(16)]}));
    if let Err(m) = check_picture(w, &y, &cb, &cr) {
        return Verdict::fail(format!("call 1: {}", m));
    }
    for k in 0..steps {
        if g.chance(1, 6) {
            y = first.0.clone();
            cb = first.1.clone();
            cr = first.2.clone();
        } else {
            for _ in 0..g.range(1, 3) {
                let which = g.below(4) as u8; // luma (0, 3) twice as often
                let plane = match which { 0 | 3 => &mut y, 1 => &mut cb, _ => &mut cr };
                let i = g.range(0, plane.len() as i64 - 1) as usize;
                let d = if g.bool() { g.range(1, 3) as u8 } else { g.byte() | 1 };
                plane[i] = plane[i].wrapping_add(d);
                moved.push((which, i));
            }
        }
        if let Err(m) = check_picture(w, &y, &cb, &cr) {
            return Verdict::fail(format!("call {} of {} on pictures differing in (plane, sample) {:?}: {}", k + 2, steps + 1, moved, m));
        }
    }
    let mut key = fnv64(&y);
    key = crate::bits::fnv64_extend(key, &cb);
    key = crate::bits::fnv64_extend(key, &cr);
    key ^= (w as u64) << 48;
    Verdict::pass_l(true, key, vec![if moved.is_empty() { "same picture again" } else { "pictures differing in a few samples" }])
}

fn empty_suite() -> SuiteReport {
    simple_suite("empty_picture", true, |acc| {
        match guard(|| yuv420_to_rgba(&[], &[], &[], 0)) {
            Ok(v) if v.is_empty() => {
                acc.count(true);
                acc.count(true);
                acc.sample(|| json!({"w":0,"h":0,"output_len":0}));
            }
            Ok(v) => acc.fail(json!({"kind":"params","empty":true}), format!("empty picture gave {} bytes", v.len())),
            Err(p) => acc.fail(json!({"kind":"params","empty":true}), format!("empty picture panicked: {}", p)),
        }
    })
}

/// Very wide and very tall pictures (beyond any H.263 format): widths / heights around powers of
/// two up to 2^17 with a few rows / columns, unique-pattern and structured contents.
const EXTREME: [usize; 30] = [
    1023, 1024, 1025, 2047, 2048, 2049, 2050, 2051, 2052, 4095, 4096, 4097, 4098, 4099, 8191, 8192, 8193, 8194, 16383, 16384, 16385, 32767, 32768, 32769, 65535,
    65536, 65537, 65538, 131072, 131073,
];

fn extreme_item(seed: u64, i: u64, acc: &mut Acc) {
    let big = EXTREME[(i % 30) as usize];
    let small = ((i / 30) % 5 + 1) as usize;
    let wide = (i / 150) % 2 == 0;
    let (w, h) = if wide { (big, small) } else { (small, big) };
    for family in [2u32, 3, 4, 5] {
        let bytes = super::content_bytes(seed ^ ((w as u64) << 24) ^ ((h as u64) << 4) ^ family as u64, 4096);
        let mut k = 0;
        let mut src = || {
            k += 1;
            bytes[(k - 1) % bytes.len()]
        };
        let (y, cb, cr) = planes(w, h, family, &mut src);
        if let Err(m) = check_picture_at(w, &y, &cb, &cr, (i as usize % 4, (i as usize / 4) % 4, (i as usize / 16) % 4)) {
            acc.fail(json!({"kind":"params","w":w,"h":h,"family":family,"extreme":true,"item":i}), m);
            return;
        }
        acc.count(true);
    }
    acc.label_n(if wide { "very wide" } else { "very tall" }, 4);
    if i == 7 {
        acc.sample(|| json!({"w": w, "h": h, "families": ["position-unique", "structured"]}));
    }
}

/// Pictures of common video sizes and of large area (up to 2 Mpixel in the quick tier): anything
/// that depends on the total number of samples, or on rows per band / per task, shows here.
const LARGE_AREA: [(usize, usize); 22] = [
    (640, 480), (800, 600), (720, 576), (1280, 720), (1024, 768), (513, 512), (511, 513), (1023, 257), (333, 1000), (3, 90000), (90001, 3), (1366, 768), (854, 480), (1920, 1080), (352, 288), (704, 576), (1408, 1152),
    (2047, 129), (129, 2047), (4099, 65), (65, 4099), (1000, 1001),
];

fn large_area_item(seed: u64, i: u64, acc: &mut Acc) {
    let (w, h) = LARGE_AREA[i as usize % LARGE_AREA.len()];
    for family in [2u32, 5] {
        let bytes = super::content_bytes(seed ^ ((w as u64) << 24) ^ ((h as u64) << 4) ^ family as u64, 8192);
        let mut k = 0;
        let mut src = || {
            k += 1;
            bytes[(k - 1) % bytes.len()]
        };
        let (y, cb, cr) = planes(w, h, family, &mut src);
        if let Err(m) = check_picture_at(w, &y, &cb, &cr, (i as usize % 4, (i as usize / 4) % 4, (i as usize / 2) % 4)) {
            acc.fail(json!({"kind":"params","large_area":i,"family":family}), m);
            return;
        }
        acc.count(true);
    }
    if w * h > (1 << 18) {
        acc.label_n("more than 2^18 pixels", 2);
    }
    if w * h > (1 << 20) {
        acc.label_n("more than 2^20 pixels", 2);
    }
    if i == 0 {
        acc.sample(|| json!({"sizes": format!("{:?}", LARGE_AREA), "families": ["position-unique", "uniform with deviating samples"]}));
    }
}

/// Calls in sequence on one thread with the *same three buffers* under different widths (w x h,
/// h x w, ...: the plane lengths allow it), the same call again, another picture in between: the
/// converter is a function of its arguments, whatever it was asked before.
fn sequence_item(seed: u64, i: u64, acc: &mut Acc) {
    let a = (i % 24 + 1) as usize;
    let b = (i / 24 % 24 + 1) as usize;
    let bytes = super::content_bytes(seed ^ (i << 8), a * b * 2 + 64);
    let mut k = 0;
    let mut src = || {
        k += 1;
        bytes[(k - 1) % bytes.len()]
    };
    let (y, cb, cr) = planes(a, b, (i % 3) as u32 * 2, &mut src);
    // every width under which the same three buffers are a consistent picture
    let mut widths: Vec<usize> = Vec::new();
    for w in 1..=a * b {
        if (a * b) % w == 0 {
            let h = a * b / w;
            if ((w + 1) / 2) * ((h + 1) / 2) == cb.len() {
                widths.push(w);
            }
        }
    }
    let order: Vec<usize> = widths.iter().copied().chain(widths.iter().rev().copied()).collect();
    for (n, w) in order.iter().enumerate() {
        acc.count(n > 0);
        if let Err(m) = check_picture(*w, &y, &cb, &cr) {
            acc.fail(json!({"kind":"params","sequence":i}), format!("call {} of a sequence of calls with the same buffers under widths {:?}: {}", n, &order[..=n], m));
            return;
        }
    }
}

/// Every width 1..=4200 with two rows (and every height 1..=4200 with two columns).
fn sweep_item(seed: u64, i: u64, acc: &mut Acc) {
    let n = (i / 2 + 1) as usize;
    let (w, h) = if i % 2 == 0 { (n, 2 + n % 2) } else { (2 + n % 3, n) };
    let bytes = super::content_bytes(seed ^ ((w as u64) << 20) ^ h as u64, 4096);
    let mut k = 0;
    let mut src = || {
        k += 1;
        bytes[(k - 1) % bytes.len()]
    };
    let (y, cb, cr) = planes(w, h, 2, &mut src);
    acc.count(true);
    if let Err(m) = check_picture_at(w, &y, &cb, &cr, (n % 4, (n / 4) % 4, (n / 16) % 4)) {
        acc.fail(json!({"kind":"params","sweep":i}), m);
    }
}

pub fn run(ctx: &Ctx) -> i32 {
    let (wmax, hmax) = ctx.tier.pick((64u64, 24u64), (200u64, 64u64));
    let seed = ctx.seed;
    let mut reports = vec![super::regression_suite(ctx), empty_suite()];
    reports.push(exhaustive_suite(ctx, "size_grid", wmax * hmax, &move |i, acc| grid_item(seed, wmax, i, acc)));
    reports.push(exhaustive_suite(ctx, "extreme_aspect", 300, &move |i, acc| extreme_item(seed, i, acc)));
    reports.push(exhaustive_suite(ctx, "large_area", LARGE_AREA.len() as u64, &move |i, acc| large_area_item(seed, i, acc)));
    reports.push(exhaustive_suite(ctx, "every_width_and_height_to_4200", 8400, &move |i, acc| sweep_item(seed, i, acc)));
    reports.push(exhaustive_suite(ctx, "same_buffers_other_widths", 576, &move |i, acc| sequence_item(seed, i, acc)));
    let (cases, rw, rh) = ctx.tier.pick((100_000u64, 300i64, 120i64), (1_500_000u64, 700i64, 300i64));
    reports.push(tape_suite(ctx, "random_sizes", cases, 1600, &move |g| random_case(g, rw, rh)));
    reports.push(tape_suite(ctx, "sibling_pictures", ctx.tier.pick(20_000u64, 300_000u64), 1600, &sibling_case));
    let mut extra = Map::new();
    extra.insert("grid".into(), json!(format!("every (w,h) in 1..={} x 1..={} x 7 content families", wmax, hmax)));
    let exhaustive = false; // the property quantifies over all sizes; only the stated box is complete
    finish(
        ctx,
        reports,
        Summary {
            rule: "size_grid enumerates every width x height in the stated box with seven plane-content families (chroma planes that average exactly 128 without being colourless; uniform planes with one to three deviating samples, mostly in the last or first column / row; hash bytes, extremes, per-position-unique pattern, independently structured planes, and planes assembled from a few repeated row templates over one-to-three-value alphabets so that equal neighbouring groups / rows / planes and special values occur all the time); random_sizes draws size and content from the proptest tape; sibling_pictures makes two to five consecutive calls on pictures of one size differing in one to a few samples (or the first picture again), each result compared with the model. Oracle: per-pixel BT.601 integer model of luma (x,y) with chroma (x/2,y/2), output length 4wh, no panic; empty picture -> empty output. Non-trivial = width not a multiple of 4, or odd height, or width >= 8; distinct by plane contents.",
            assumptions: vec!["planes have the documented sizes (chroma ceil(w/2) x ceil(h/2)); other shapes are outside the property".into()],
            exhaustive,
            extra,
        },
    )
}

pub fn replay(suite: &str, case: &Value) -> Option<Verdict> {
    match suite {
        "sibling_pictures" => {
            let tape = super::tape_of(case)?;
            Some(sibling_case(&mut Gen::new(&tape)))
        }
        "random_sizes" => {
            let tape = super::tape_of(case)?;
            let mut g = Gen::new(&tape);
            // replay accepts both tiers' bounds: the recorded tape decides
            let thorough = case["tier"].as_str() == Some("thorough");
            let (rw, rh) = if thorough { (700, 300) } else { (300, 120) };
            Some(random_case(&mut g, rw, rh))
        }
        "size_grid" => {
            let w = case["w"].as_u64()? as usize;
            let h = case["h"].as_u64()? as usize;
            let family = case["family"].as_u64().unwrap_or(2) as u32;
            let bytes = super::content_bytes(case["seed"].as_u64().unwrap_or(1) ^ ((w as u64) << 20) ^ ((h as u64) << 8) ^ family as u64, w * h * 2 + 32);
            let mut k = 0;
            let mut src = || {
                k += 1;
                bytes[(k - 1) % bytes.len()]
            };
            let (y, cb, cr) = planes(w, h, family, &mut src);
            let offs = ((w + family as usize) % 4, (h + family as usize) % 4, (w + h) % 4);
            Some(match check_picture_at(w, &y, &cb, &cr, offs) {
                Ok(()) => Verdict::pass(true, 0),
                Err(m) => Verdict::fail(m),
            })
        }
        "every_width_and_height_to_4200" | "same_buffers_other_widths" => {
            let mut acc = Acc::default();
            if suite == "same_buffers_other_widths" {
                sequence_item(case["seed"].as_u64().unwrap_or(1), case["sequence"].as_u64()?, &mut acc);
            } else {
                sweep_item(case["seed"].as_u64().unwrap_or(1), case["sweep"].as_u64()?, &mut acc);
            }
            Some(match acc.failure {
                Some((_, _, m, _)) => Verdict::fail(m),
                None => Verdict::pass(true, 0),
            })
        }
        "large_area" => {
            let mut acc = Acc::default();
            large_area_item(case["seed"].as_u64().unwrap_or(1), case["large_area"].as_u64()?, &mut acc);
            Some(match acc.failure {
                Some((_, _, m, _)) => Verdict::fail(m),
                None => Verdict::pass(true, 0),
            })
        }
        "extreme_aspect" => {
            let mut acc = Acc::default();
            extreme_item(case["seed"].as_u64().unwrap_or(1), case["item"].as_u64()?, &mut acc);
            Some(match acc.failure {
                Some((_, _, m, _)) => Verdict::fail(m),
                None => Verdict::pass(true, 0),
            })
        }
        "empty_picture" => {
            let r = empty_suite();
            Some(match r.failure {
                Some(f) => Verdict::fail(f.msg),
                None => Verdict::pass(true, 0),
            })
        }
        _ => None,
    }
}
