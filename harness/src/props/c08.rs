//! C08 - RGBA output pairs every luma sample with its 4:2:0 chroma sample, at any size.

use crate::bits::fnv64;
use crate::gen::Gen;
use crate::model::yuv::*;
use crate::runner::*;
use h263_rs_yuv::bt601::yuv420_to_rgba;
use serde_json::{json, Map, Value};

/// Plane content families. 0: bytes from `src`; 1: extremes; 2: per-position-unique pattern so a
/// shifted / mirrored / interpolated sample is always visible.
fn planes(w: usize, h: usize, family: u32, src: &mut dyn FnMut() -> u8) -> (Vec<u8>, Vec<u8>, Vec<u8>) {
    let cw = (w + 1) / 2;
    let ch = (h + 1) / 2;
    let mut y = vec![0u8; w * h];
    let mut cb = vec![0u8; cw * ch];
    let mut cr = vec![0u8; cw * ch];
    match family {
        0 => {
            for v in y.iter_mut() {
                *v = src();
            }
            for v in cb.iter_mut() {
                *v = src();
            }
            for v in cr.iter_mut() {
                *v = src();
            }
        }
        1 => {
            for v in y.iter_mut() {
                *v = if src() & 1 == 0 { 0 } else { 255 };
            }
            for v in cb.iter_mut() {
                *v = if src() & 1 == 0 { 0 } else { 255 };
            }
            for v in cr.iter_mut() {
                *v = if src() & 1 == 0 { 0 } else { 255 };
            }
        }
        _ => {
            let off = src();
            for py in 0..h {
                for px in 0..w {
                    y[px + py * w] = (px * 7 + py * 31 + off as usize) as u8;
                }
            }
            for py in 0..ch {
                for px in 0..cw {
                    cb[px + py * cw] = (px * 13 + py * 53 + 17 + off as usize) as u8;
                    cr[px + py * cw] = (px * 29 + py * 11 + 101 + off as usize) as u8;
                }
            }
        }
    }
    (y, cb, cr)
}

fn check_picture(w: usize, y: &[u8], cb: &[u8], cr: &[u8]) -> Result<(), String> {
    let h = if w == 0 { 0 } else { y.len() / w };
    let out = guard(|| yuv420_to_rgba(y, cb, cr, w)).map_err(|p| format!("yuv420_to_rgba({}x{}) panicked: {}", w, h, p))?;
    let want = picture_rgba(y, cb, cr, w);
    if out.len() != want.len() {
        return Err(format!("{}x{}: output has {} bytes, expected {}", w, h, out.len(), want.len()));
    }
    if out != want {
        let i = out.iter().zip(want.iter()).position(|(a, b)| a != b).unwrap();
        let p = i / 4;
        let (px, py) = (p % w, p / w);
        let cw = (w + 1) / 2;
        return Err(format!(
            "{}x{}: pixel ({},{}) = {:?} but conversion of luma {} with chroma ({},{}) at chroma position ({},{}) is {:?}",
            w, h, px, py, &out[p * 4..p * 4 + 4], y[p], cb[px / 2 + (py / 2) * cw], cr[px / 2 + (py / 2) * cw], px / 2, py / 2, &want[p * 4..p * 4 + 4]
        ));
    }
    Ok(())
}

fn size_labels(w: usize, h: usize) -> Labels {
    let mut l: Labels = Vec::new();
    l.push(match w % 4 {
        0 => "w%4=0",
        1 => "w%4=1",
        2 => "w%4=2",
        _ => "w%4=3",
    });
    l.push(if h % 2 == 0 { "h even" } else { "h odd" });
    if w == 1 {
        l.push("1 column");
    }
    if h == 1 {
        l.push("1 row");
    }
    if w >= 8 {
        l.push("several SIMD groups");
    }
    l
}

fn grid_item(ctx_seed: u64, wmax: u64, i: u64, acc: &mut Acc) {
    let w = (i % wmax + 1) as usize;
    let h = (i / wmax + 1) as usize;
    for family in 0..3u32 {
        let bytes = super::content_bytes(ctx_seed ^ ((w as u64) << 20) ^ ((h as u64) << 8) ^ family as u64, w * h * 2 + 16);
        let mut k = 0;
        let mut src = || {
            k += 1;
            bytes[k - 1]
        };
        let (y, cb, cr) = planes(w, h, family, &mut src);
        if let Err(m) = check_picture(w, &y, &cb, &cr) {
            acc.fail(json!({"kind":"params","w":w,"h":h,"family":family}), m);
            return;
        }
        let nontrivial = w % 4 != 0 || h % 2 == 1 || w >= 8;
        acc.count(nontrivial);
    }
    for l in size_labels(w, h) {
        acc.label_n(l, 3);
    }
    if w == 7 && h == 3 {
        acc.sample(|| json!({"w": w, "h": h, "families": ["hash bytes", "extremes", "position-unique"]}));
    }
}

fn random_case(g: &mut Gen, wmax: i64, hmax: i64) -> Verdict {
    let w = if g.chance(1, 4) { g.range(1, 12) } else { g.range(1, wmax) } as usize;
    let h = if g.chance(1, 4) { g.range(1, 6) } else { g.range(1, hmax) } as usize;
    // keep the tape usage bounded: larger pictures use the pattern families more often
    let family = if w * h > 1500 { 2 } else { g.below(3) };
    let mut src = || g.byte();
    let (y, cb, cr) = planes(w, h, family, &mut src);
    g.describe(|| json!({"w": w, "h": h, "family": family, "y_head": &y[..y.len().min(16)]}));
    match check_picture(w, &y, &cb, &cr) {
        Err(m) => Verdict::fail(m),
        Ok(()) => {
            let nontrivial = w % 4 != 0 || h % 2 == 1 || w >= 8;
            let mut key = fnv64(&y);
            key = crate::bits::fnv64_extend(key, &cb);
            key = crate::bits::fnv64_extend(key, &cr);
            key ^= (w as u64) << 48;
            Verdict::pass_l(nontrivial, key, size_labels(w, h))
        }
    }
}

fn empty_suite() -> SuiteReport {
    simple_suite("empty_picture", true, |acc| {
        match guard(|| yuv420_to_rgba(&[], &[], &[], 0)) {
            Ok(v) if v.is_empty() => {
                acc.count(true);
                acc.count(true);
                acc.sample(|| json!({"w":0,"h":0,"output_len":0}));
            }
            Ok(v) => acc.fail(json!({"kind":"params","empty":true}), format!("empty picture gave {} bytes", v.len())),
            Err(p) => acc.fail(json!({"kind":"params","empty":true}), format!("empty picture panicked: {}", p)),
        }
    })
}

pub fn run(ctx: &Ctx) -> i32 {
    let (wmax, hmax) = ctx.tier.pick((64u64, 24u64), (200u64, 64u64));
    let seed = ctx.seed;
    let mut reports = vec![super::regression_suite(ctx), empty_suite()];
    reports.push(exhaustive_suite(ctx, "size_grid", wmax * hmax, &move |i, acc| grid_item(seed, wmax, i, acc)));
    let (cases, rw, rh) = ctx.tier.pick((20_000u64, 300i64, 120i64), (400_000u64, 700i64, 300i64));
    reports.push(tape_suite(ctx, "random_sizes", cases, 1600, &move |g| random_case(g, rw, rh)));
    let mut extra = Map::new();
    extra.insert("grid".into(), json!(format!("every (w,h) in 1..={} x 1..={} x 3 content families", wmax, hmax)));
    let exhaustive = false; // the property quantifies over all sizes; only the stated box is complete
    finish(
        ctx,
        reports,
        Summary {
            rule: "size_grid enumerates every width x height in the stated box with three plane-content families (hash bytes, extremes, per-position-unique pattern); random_sizes draws size and content from the proptest tape. Oracle: per-pixel BT.601 integer model of luma (x,y) with chroma (x/2,y/2), output length 4wh, no panic; empty picture -> empty output. Non-trivial = width not a multiple of 4, or odd height, or width >= 8; distinct by plane contents.",
            assumptions: vec!["planes have the documented sizes (chroma ceil(w/2) x ceil(h/2)); other shapes are outside the property".into()],
            exhaustive,
            extra,
        },
    )
}

pub fn replay(suite: &str, case: &Value) -> Option<Verdict> {
    match suite {
        "random_sizes" => {
            let tape = super::tape_of(case)?;
            let mut g = Gen::new(&tape);
            // replay accepts both tiers' bounds: the recorded tape decides
            let thorough = case["tier"].as_str() == Some("thorough");
            let (rw, rh) = if thorough { (700, 300) } else { (300, 120) };
            Some(random_case(&mut g, rw, rh))
        }
        "size_grid" => {
            let w = case["w"].as_u64()? as usize;
            let h = case["h"].as_u64()? as usize;
            let family = case["family"].as_u64().unwrap_or(2) as u32;
            let bytes = super::content_bytes(case["seed"].as_u64().unwrap_or(1) ^ ((w as u64) << 20) ^ ((h as u64) << 8) ^ family as u64, w * h * 2 + 16);
            let mut k = 0;
            let mut src = || {
                k += 1;
                bytes[k - 1]
            };
            let (y, cb, cr) = planes(w, h, family, &mut src);
            Some(match check_picture(w, &y, &cb, &cr) {
                Ok(()) => Verdict::pass(true, 0),
                Err(m) => Verdict::fail(m),
            })
        }
        "empty_picture" => {
            let r = empty_suite();
            Some(match r.failure {
                Some(f) => Verdict::fail(f.msg),
                None => Verdict::pass(true, 0),
            })
        }
        _ => None,
    }
}
