//! C13 - every decoded picture can be deblocked and converted to RGBA.

use super::common::*;
use crate::bits::fnv64;
use crate::dec::*;
use crate::gen::Gen;
use crate::gen_pic::*;
use crate::model::deblock::TABLE_J2;
use crate::runner::*;
use crate::syntax::*;
use h263_rs::H263State;
use h263_rs_deblock::deblock::{deblock, QUANT_TO_STRENGTH};
use h263_rs_yuv::bt601::yuv420_to_rgba;
use serde_json::{json, Map, Value};

/// Post-process the decoder's most recent picture exactly as a player would.
pub fn postprocess(st: &H263State, w: usize, h: usize) -> Result<(), String> {
    let lp = last_picture(st).ok_or("no picture after a successful decode")?;
    if lp.format_dims != Some((w as u16, h as u16)) {
        return Err(format!("picture reports size {:?}, expected {}x{}", lp.format_dims, w, h));
    }
    let cw = (w + 1) / 2;
    let chh = (h + 1) / 2;
    if lp.y_len != w * h || lp.c_len != (cw * chh, cw * chh) || lp.chroma_samples_per_row != cw {
        return Err(format!(
            "{}x{} picture: luma {} samples (need {}), chroma {:?} (need {} each), chroma row length {} (need {})",
            w, h, lp.y_len, w * h, lp.c_len, cw * chh, lp.chroma_samples_per_row, cw
        ));
    }
    let q = lp.quant as usize;
    if !(1..=31).contains(&q) {
        return Err(format!("decoded picture reports quantizer {}", q));
    }
    let strength = QUANT_TO_STRENGTH[q];
    if strength != TABLE_J2[q] {
        return Err(format!("strength for quantizer {} is {}, Table J.2 says {}", q, strength, TABLE_J2[q]));
    }
    let p = &lp.planes;
    let y = guard(|| deblock(&p.y, w, strength)).map_err(|e| format!("deblocking the {}x{} luma plane (strength {}) panicked: {}", w, h, strength, e))?;
    let cb = guard(|| deblock(&p.cb, cw, strength)).map_err(|e| format!("deblocking the {}x{} Cb plane of a {}x{} picture panicked: {}", cw, chh, w, h, e))?;
    let cr = guard(|| deblock(&p.cr, cw, strength)).map_err(|e| format!("deblocking the Cr plane of a {}x{} picture panicked: {}", w, h, e))?;
    if y.len() != p.y.len() || cb.len() != p.cb.len() || cr.len() != p.cr.len() {
        return Err(format!("deblocking changed a plane length of a {}x{} picture", w, h));
    }
    let rgba = guard(|| yuv420_to_rgba(&y, &cb, &cr, w)).map_err(|e| format!("converting the {}x{} picture to RGBA panicked: {}", w, h, e))?;
    if rgba.len() != 4 * w * h {
        return Err(format!("RGBA output of a {}x{} picture has {} bytes, expected {}", w, h, rgba.len(), 4 * w * h));
    }
    Ok(())
}

pub fn cheap_intra(mode: Mode, version: u8, size: Size, q: u8, salt: usize) -> Pic {
    let mut hdr = match mode {
        Mode::Sorenson => Header::sorenson(version, PicType::I, size, q),
        Mode::Standard => Header::standard(PicType::I, size, q),
    };
    hdr.tr = salt as u8;
    let (mbw, mbh) = hdr.mb_dims().unwrap();
    let mut mbs = Vec::new();
    for n in 0..mbw * mbh {
        let mut mb = Mb::new(MbKind::Intra);
        for b in 0..6 {
            let dc = 20 + ((n * 31 + b * 17 + salt * 7) % 210) as u8;
            mb.blocks[b].dc = if dc == 128 { 127 } else { dc };
            mb.blocks[b].events = vec![Event { run: (b % 3) as u8, level: if (n + b) % 2 == 0 { 2 } else { -3 }, force_escape: false, wide: false }];
        }
        mbs.push(mb);
    }
    Pic { hdr, mbs, trailing_zero_bits: 0 }
}

fn cheap_inter(like: &Header, q: u8, salt: usize) -> Pic {
    let mut hdr = like.clone();
    hdr.ptype = PicType::P;
    hdr.quant = q;
    hdr.tr = (salt + 1) as u8;
    let (mbw, mbh) = hdr.mb_dims().unwrap();
    let mut mbs = Vec::new();
    for n in 0..mbw * mbh {
        let mut mb = match (n + salt) % 4 {
            0 => Mb::not_coded(),
            1 => Mb::new(MbKind::Inter4V),
            2 => Mb::new(MbKind::Intra),
            _ => Mb::new(MbKind::Inter),
        };
        if mb.kind.is_inter_coded() {
            for k in 0..4 {
                mb.mvd[k] = ((((n * 5 + k * 3 + salt) % 21) as i8) - 10, (((n * 3 + k * 7 + salt) % 17) as i8) - 8);
            }
        }
        if mb.kind != MbKind::NotCoded {
            for b in 0..6 {
                mb.blocks[b].dc = 60 + ((n + b) % 60) as u8;
                if (n + b) % 3 == 0 {
                    mb.blocks[b].events = vec![Event { run: 0, level: 4, force_escape: false, wide: false }];
                }
            }
        }
        mbs.push(mb);
    }
    Pic { hdr, mbs, trailing_zero_bits: 0 }
}

fn grid_item(wmax: u64, i: u64, acc: &mut Acc) {
    let w = (i % wmax + 1) as usize;
    let h = (i / wmax + 1) as usize;
    let size = if w <= 255 && h <= 255 && (w + h) % 2 == 0 { Size::Custom8(w as u8, h as u8) } else { Size::Custom16(w as u16, h as u16) };
    let version = ((w + h) % 2) as u8;
    let q1 = ((w * 3 + h) % 31 + 1) as u8;
    let q2 = ((w + h * 5) % 31 + 1) as u8;
    let mut st = H263State::new(options_scal(Mode::Sorenson, (w / 2 + h) % 2 == 1));
    let ipic = cheap_intra(Mode::Sorenson, version, size, q1, w + h);
    let ppic = cheap_inter(&ipic.hdr, q2, w * 3 + h);
    for (name, pic) in [("I", &ipic), ("P", &ppic)] {
        let r = match decode_bytes(&mut st, &encode_pic(pic)) {
            Outcome::Ok => postprocess(&st, w, h),
            o => Err(format!("valid {} picture of {}x{} not decoded: {}", name, w, h, o.short())),
        };
        if let Err(m) = r {
            acc.fail(json!({"kind":"params","w":w,"h":h}), format!("{} picture, quantizer {}: {}", name, pic.hdr.quant, m));
            return;
        }
        acc.count(w % 16 != 0 || h % 16 != 0 || w < 10 || h < 10);
    }
    if w < 10 || h < 10 {
        acc.label_n("dimension below 10", 2);
    }
    if h == 1 || w == 1 {
        acc.label_n("1-pixel row or column", 2);
    }
    if w % 2 == 1 || h % 2 == 1 {
        acc.label_n("odd dimension", 2);
    }
    if w == 9 && h == 1 {
        acc.sample(|| json!({"w": w, "h": h, "pictures": ["I", "P"], "quantizers": [q1, q2], "pipeline": "deblock(Y,Cb,Cr; strength Table J.2[q]) -> yuv420_to_rgba"}));
    }
}

/// Standard mode, custom picture formats (PLUSPTYPE + CPFMT): every width x height that is a
/// multiple of 4 in the box; I picture (format stated) then P picture (format not restated).
fn std_custom_item(n: u64, i: u64, acc: &mut Acc) {
    let w = ((i % n) + 1) as usize * 4;
    let h = ((i / n) + 1) as usize * 4;
    let size = Size::StdCustom(w as u16, h as u16);
    let mut ipic = cheap_intra(Mode::Standard, 0, size, ((w + h) % 31 + 1) as u8, w + h);
    ipic.hdr.plus = PlusForm::Full;
    let mut ppic = cheap_inter(&ipic.hdr, ((w * 7 + h) % 31 + 1) as u8, w + 3 * h);
    ppic.hdr.plus = if (w / 4 + h / 4) % 3 == 0 { PlusForm::Full } else { PlusForm::Brief };
    let mut st_plain = H263State::new(options(Mode::Standard, false));
    for (name, pic) in [("I", &ipic), ("P", &ppic)] {
        let r = match decode_bytes(&mut st_plain, &encode_pic(pic)) {
            Outcome::Ok => postprocess(&st_plain, w, h),
            o => Err(format!("valid standard-mode {} picture of {}x{} (custom format, header form {:?}) not decoded: {}", name, w, h, pic.hdr.plus, o.short())),
        };
        if let Err(m) = r {
            acc.fail(json!({"kind":"params","w":w,"h":h,"std_custom":true}), m);
            return;
        }
        acc.count(w % 16 != 0 || h % 16 != 0 || w < 10 || h < 10);
    }
    if w == 20 && h == 12 {
        acc.sample(|| json!({"standard_custom_format": [w, h], "pictures": ["I (UFEP=001 + CPFMT)", "P (UFEP=000 or 001)"]}));
    }
}

/// Pictures with one or both dimensions far beyond the fixed formats (Sorenson 16-bit sizes):
/// more than 2048 samples per line, more than 2040 lines, and more than 2^24 samples in all.
const LARGE: [(u16, u16); 14] = [
    (2049, 3), (2200, 18), (4100, 16), (16, 2042), (16, 2048), (18, 4100), (8, 8200), (65535, 1), (1, 65535), (40000, 9),
    // above 2^24 samples (about a second each; the first in both tiers, the rest in thorough)
    (5001, 3357), (4097, 4099), (65535, 257), (257, 65535),
];

fn large_item(i: u64, acc: &mut Acc) {
    let (w, h) = LARGE[i as usize];
    let (w, h) = (w as usize, h as usize);
    let size = Size::Custom16(w as u16, h as u16);
    let mut st = H263State::new(options_scal(Mode::Sorenson, i % 3 == 0));
    let ipic = cheap_intra(Mode::Sorenson, (i % 2) as u8, size, (i % 31 + 1) as u8, i as usize);
    // P picture: every macroblock not coded (one bit each)
    let mut ph = ipic.hdr.clone();
    ph.ptype = PicType::P;
    ph.tr = ph.tr.wrapping_add(1);
    let (mbw, mbh) = ph.mb_dims().unwrap();
    let ppic = Pic { hdr: ph, mbs: vec![Mb::not_coded(); mbw * mbh], trailing_zero_bits: 0 };
    for (name, pic) in [("I", &ipic), ("P", &ppic)] {
        let r = match decode_bytes(&mut st, &encode_pic(pic)) {
            Outcome::Ok => postprocess(&st, w, h),
            o => Err(format!("valid {} picture of {}x{} not decoded: {}", name, w, h, o.short())),
        };
        if let Err(m) = r {
            acc.fail(json!({"kind":"params","large_index":i}), format!("{} picture {}x{}: {}", name, w, h, m));
            return;
        }
        acc.count(true);
    }
    if i == 0 {
        acc.sample(|| json!({"large_sizes": format!("{:?}", LARGE)}));
    }
}

fn fixed_formats_suite() -> SuiteReport {
    simple_suite("fixed_formats", true, |acc| {
        let cases: Vec<(Mode, Size)> = vec![
            (Mode::Standard, Size::Sqcif),
            (Mode::Standard, Size::Qcif),
            (Mode::Standard, Size::Cif),
            (Mode::Standard, Size::Cif4),
            (Mode::Sorenson, Size::Cif),
            (Mode::Sorenson, Size::Qcif),
            (Mode::Sorenson, Size::Sqcif),
            (Mode::Sorenson, Size::S320x240),
            (Mode::Sorenson, Size::S160x120),
        ];
        for (k, (mode, size)) in cases.iter().enumerate() {
            for q in [1u8, 16, 31] {
                let (w, h) = size.dims().unwrap();
                let mut st = H263State::new(options_scal(*mode, q == 16));
                let ipic = cheap_intra(*mode, 0, *size, q, k);
                let ppic = cheap_inter(&ipic.hdr, 32 - q, k);
                for pic in [&ipic, &ppic] {
                    let r = match decode_bytes(&mut st, &encode_pic(pic)) {
                        Outcome::Ok => postprocess(&st, w, h),
                        o => Err(format!("not decoded: {}", o.short())),
                    };
                    acc.count(true);
                    if let Err(m) = r {
                        acc.fail(json!({"kind":"params","suite":"fixed","k":k}), format!("{:?} {:?} q{}: {}", mode, size, pic.hdr.quant, m));
                        return;
                    }
                }
            }
        }
        acc.sample(|| json!({"formats": "sub-QCIF, QCIF, CIF, 4CIF (standard); CIF, QCIF, sub-QCIF, 320x240, 160x120 (Sorenson)", "quantizers": [1, 16, 31]}));
    })
}

fn random_case(g: &mut Gen, cfg: &PicCfg) -> Verdict {
    let (mode, version) = gen_mode(g, cfg);
    let size = if mode == Mode::Sorenson && g.chance(1, 2) { Size::Custom16(g.range(1, cfg.max_dim as i64) as u16, g.range(1, cfg.max_dim as i64 * 3 / 4) as u16) } else { gen_size(g, mode, cfg) };
    let (w, h) = size.dims().unwrap();
    let scal = g.bool();
    let mut st = H263State::new(options_scal(mode, scal));
    let ipic = gen_intra_pic_with(g, cfg, mode, version, size);
    let n = g.range(0, 2) as usize;
    let mut pics = vec![ipic.clone()];
    for _ in 0..n {
        let t = if mode == Mode::Sorenson && g.chance(1, 3) { PicType::D } else { PicType::P };
        pics.push(gen_inter_pic(g, cfg, &ipic.hdr, t, true));
    }
    g.describe(|| json!({"pictures": pics.iter().map(describe_pic).collect::<Vec<_>>()}));
    let mut key = 0u64;
    for p in &pics {
        let bytes = encode_pic(p);
        key = key.rotate_left(5) ^ fnv64(&bytes);
        let r = match decode_bytes(&mut st, &bytes) {
            Outcome::Ok => postprocess(&st, w, h),
            o => Err(format!("valid picture not decoded: {}", o.short())),
        };
        if let Err(m) = r {
            return Verdict::fail(format!("{:?} picture {:?} q{}: {}", p.hdr.ptype, p.hdr.size, p.hdr.quant, m));
        }
    }
    Verdict::pass_l(w % 16 != 0 || h % 16 != 0 || w < 10 || h < 10, key, vec![mode_label(&ipic.hdr), size_label(&ipic.hdr)])
}

/// One decoder, several pictures, the size changing at intra pictures - to the transposed size, to
/// another shape of the same area, to a size drawn afresh - with predicted and disposable pictures
/// in between: every decoded picture must have the planes of *its own* header's size, whatever
/// the decoder held before.
fn sequence_case(g: &mut Gen, cfg: &PicCfg) -> Verdict {
    let (mode, version) = gen_mode(g, cfg);
    let mut size = gen_size(g, mode, cfg);
    let scal = g.bool();
    let mut st = H263State::new(options_scal(mode, scal));
    let mut like = None::<Header>;
    let n = g.range(2, 6) as usize;
    let mut key = 0u64;
    let mut changes = 0;
    let mut trace: Vec<Value> = Vec::new();
    let mut labels: Labels = Vec::new();
    let mut prev_tr: Option<u8> = None;
    for step in 0..n {
        if like.is_some() && g.chance(1, 5) {
            // a picture that is rejected after its header was accepted - often one announcing another
            // size: it must leave nothing behind (the next pictures are judged as if it never came)
            use crate::hist::*;
            let mut l = like.clone().unwrap();
            let other_size = g.bool();
            if other_size {
                if let Some((w, h)) = l.size.dims() {
                    l.size = match mode {
                        Mode::Sorenson => Size::Custom16(h.clamp(1, 65535) as u16, (w + 16).clamp(1, 65535) as u16),
                        Mode::Standard => Size::StdCustom(((h + 3) / 4 * 4).clamp(4, 2048) as u16, ((w + 3) / 4 * 4 + 4).clamp(4, 1152) as u16),
                    };
                }
            }
            let kind = *g.pick(&[BadKind::InvalidIntraDc, BadKind::EscapeLevelZero, BadKind::InvalidShortCode, BadKind::TruncatedInBlock]);
            // (another size is announced by an intra carrier: a predicted carrier may leave its
            // size unstated, and would then be parsed with the current one)
            let inter = g.bool() && !other_size;
            let tr = g.byte();
            let bytes = bad_picture(g, cfg, &l, kind, inter, tr);
            let before = last_digest(&st);
            match decode_bytes(&mut st, &bytes) {
                Outcome::Err(_) => {}
                o => return Verdict::fail(format!("picture {} of the sequence must be rejected ({}), gave {}", step, kind.label(), o.short())),
            }
            if last_digest(&st) != before {
                return Verdict::fail(format!("picture {} of the sequence was rejected ({}) but changed the most recent picture", step, kind.label()));
            }
            labels.push("sequence has a rejected picture");
            continue;
        }
        let pic = match (&like, g.weighted(&[2, 3])) {
            (Some(l), 1) => {
                let t = if mode == Mode::Sorenson && g.chance(1, 3) { PicType::D } else { PicType::P };
                gen_inter_pic(g, cfg, l, t, true)
            }
            _ => {
                if like.is_some() {
                    let (w, h) = size.dims().unwrap();
                    let custom = |w: usize, h: usize| -> Option<Size> {
                        if w == 0 || h == 0 || w > 65535 || h > 65535 {
                            return None;
                        }
                        match mode {
                            Mode::Sorenson => Some(if w <= 255 && h <= 255 && step % 2 == 0 { Size::Custom8(w as u8, h as u8) } else { Size::Custom16(w as u16, h as u16) }),
                            Mode::Standard => {
                                if w % 4 == 0 && h % 4 == 0 && w <= 2048 && h <= 1152 {
                                    Some(Size::StdCustom(w as u16, h as u16))
                                } else {
                                    None
                                }
                            }
                        }
                    };
                    let new = match g.below(5) {
                        0 => custom(h, w),
                        1 => {
                            if w % 2 == 0 {
                                custom(w / 2, h * 2)
                            } else {
                                custom(w * 2, (h + 1) / 2)
                            }
                        }
                        2 => custom(w + 16, h.saturating_sub(16).max(1)),
                        3 => Some(gen_size(g, mode, cfg)),
                        _ => Some(size),
                    };
                    if let Some(s2) = new {
                        if s2.dims().map(|(a, b)| a * b <= 400_000).unwrap_or(false) {
                            if s2.dims() != size.dims() {
                                changes += 1;
                            }
                            size = s2;
                        }
                    }
                }
                let mut i = gen_intra_pic_with(g, cfg, mode, version, size);
                if like.is_some() && mode == Mode::Sorenson && g.chance(1, 4) {
                    // a disposable picture made of intra macroblocks only, of whatever size: it is
                    // shown, but the reference (and the size predicted pictures must have) stays
                    i.hdr.ptype = PicType::D;
                    if g.bool() {
                        if let Some(t) = prev_tr {
                            i.hdr.tr = t;
                        }
                    }
                    size = like.as_ref().unwrap().size;
                    labels.push("sequence has an all-intra disposable picture (any size)");
                    i
                } else if like.is_some() && g.chance(1, 3) {
                    // a predicted picture made of intra macroblocks only: it needs nothing from its
                    // reference and may therefore have another size; it becomes the new reference
                    i.hdr.ptype = PicType::P;
                    if i.hdr.plus == PlusForm::Baseline && matches!(size, Size::StdCustom(..)) {
                        i.hdr.plus = PlusForm::Full;
                    }
                    labels.push("sequence has an all-intra predicted picture (may change the size)");
                    like = Some(i.hdr.clone());
                    i
                } else {
                    like = Some(i.hdr.clone());
                    i
                }
            }
        };
        prev_tr = Some(pic.hdr.tr);
        let (w, h) = pic.hdr.dims().unwrap();
        let bytes = encode_pic(&pic);
        key = key.rotate_left(5) ^ fnv64(&bytes);
        if g.want_desc {
            trace.push(describe_pic(&pic));
            let t = trace.clone();
            g.describe(|| json!({"pictures": t}));
        }
        let r = match decode_bytes(&mut st, &bytes) {
            Outcome::Ok => postprocess(&st, w, h),
            o => Err(format!("valid picture not decoded: {}", o.short())),
        };
        if let Err(m) = r {
            return Verdict::fail(format!("picture {} of the sequence ({:?} {:?} q{}): {}", step, pic.hdr.ptype, pic.hdr.size, pic.hdr.quant, m));
        }
    }
    labels.push(mode_label(like.as_ref().unwrap()));
    labels.sort();
    labels.dedup();
    if changes > 0 {
        labels.push("size changed within the sequence");
    }
    if changes >= 2 {
        labels.push("size changed twice or more");
    }
    Verdict::pass_l(changes > 0, key, labels)
}

pub fn cfg_for(tier: Tier) -> PicCfg {
    match tier {
        Tier::Quick => PicCfg { max_dim: 320, max_fixed_mbs: 396, budget: 1200, ..PicCfg::quick() },
        Tier::Thorough => PicCfg { max_dim: 640, max_fixed_mbs: 1584, budget: 1500, ..PicCfg::thorough() },
    }
}

pub fn run(ctx: &Ctx) -> i32 {
    let mut reports = vec![super::regression_suite(ctx)];
    let (gw, gh) = ctx.tier.pick((64u64, 64u64), (200u64, 200u64));
    reports.push(exhaustive_suite(ctx, "size_grid", gw * gh, &move |i, acc| grid_item(gw, i, acc)));
    let n = ctx.tier.pick(24u64, 72u64);
    reports.push(exhaustive_suite(ctx, "standard_custom_size_grid", n * n, &move |i, acc| std_custom_item(n, i, acc)));
    let nlarge = ctx.tier.pick(11u64, 14u64);
    reports.push(exhaustive_suite(ctx, "large_dimension_pictures", nlarge, &large_item));
    reports.push(fixed_formats_suite());
    let cfg = cfg_for(ctx.tier);
    let cases = ctx.tier.pick(30_000u64, 600_000u64);
    reports.push(tape_suite(ctx, "random_pictures", cases, 6144, &move |g| random_case(g, &cfg)));
    let scfg = PicCfg { max_dim: 96, max_fixed_mbs: 99, budget: 500, ..cfg_for(ctx.tier) };
    reports.push(tape_suite(ctx, "size_changing_sequences", ctx.tier.pick(20_000u64, 400_000u64), 6144, &move |g| sequence_case(g, &scfg)));
    let mut extra = Map::new();
    extra.insert("grid".into(), json!(format!("every (w,h) in 1..={} x 1..={}, I and P picture each, quantizers cycling 1..31", gw, gh)));
    finish(
        ctx,
        reports,
        Summary {
            rule: "Decode an I and a P picture for every width x height in the box (Sorenson custom sizes, both versions, quantizers cycling through 1..31), the fixed formats of both modes, tape-generated pictures up to 640x480, and tape-generated sequences on one decoder whose size changes at intra pictures (transposed, same area in another shape, drawn afresh) with predicted / disposable pictures in between; after each successful decode check the plane-size relations (luma w*h, chroma ceil(w/2)*ceil(h/2), row length ceil(w/2)) and run the player pipeline: deblock each plane with QUANT_TO_STRENGTH[quantizer], convert with yuv420_to_rgba (whose documented preconditions are debug-asserted in this build). Oracle: no panic, plane lengths preserved, exactly w*h RGBA pixels. Non-trivial = a dimension that is not a multiple of 16 or is below 10.",
            assumptions: vec!["debug assertions of the post-processors are compiled in (harness profile)".into()],
            exhaustive: false,
            extra,
        },
    )
}

pub fn replay(suite: &str, case: &Value) -> Option<Verdict> {
    match suite {
        "random_pictures" => {
            let tier = if case["tier"].as_str() == Some("thorough") { Tier::Thorough } else { Tier::Quick };
            Some(random_case(&mut Gen::new(&super::tape_of(case)?), &cfg_for(tier)))
        }
        "size_changing_sequences" => {
            let tier = if case["tier"].as_str() == Some("thorough") { Tier::Thorough } else { Tier::Quick };
            let scfg = PicCfg { max_dim: 96, max_fixed_mbs: 99, budget: 500, ..cfg_for(tier) };
            Some(sequence_case(&mut Gen::new(&super::tape_of(case)?), &scfg))
        }
        "standard_custom_size_grid" | "size_grid" if case["std_custom"] == true => {
            let w = case["w"].as_u64()? / 4;
            let h = case["h"].as_u64()? / 4;
            let mut acc = Acc::default();
            std_custom_item(1 << 20, (h - 1) * (1 << 20) + (w - 1), &mut acc);
            Some(match acc.failure {
                Some((_, _, m, _)) => Verdict::fail(m),
                None => Verdict::pass(true, 0),
            })
        }
        "size_grid" => {
            let w = case["w"].as_u64()?;
            let h = case["h"].as_u64()?;
            let mut acc = Acc::default();
            grid_item(1 << 20, (h - 1) * (1 << 20) + (w - 1), &mut acc);
            Some(match acc.failure {
                Some((_, _, m, _)) => Verdict::fail(m),
                None => Verdict::pass(true, 0),
            })
        }
        "large_dimension_pictures" => {
            let mut acc = Acc::default();
            large_item(case["large_index"].as_u64()?, &mut acc);
            Some(match acc.failure {
                Some((_, _, m, _)) => Verdict::fail(m),
                None => Verdict::pass(true, 0),
            })
        }
        "fixed_formats" => Some(match fixed_formats_suite().failure {
            Some(f) => Verdict::fail(f.msg),
            None => Verdict::pass(true, 0),
        }),
        _ => None,
    }
}
