//! C07 - YUV -> RGB is the BT.601 studio-range formula for every colour (exhaustive, 2^24).

use crate::model::yuv::*;
use crate::runner::*;
use h263_rs_yuv::bt601::yuv420_to_rgba;
use serde_json::{json, Map, Value};

const W: usize = 7; // one SIMD group of four + a remainder group of three
const H: usize = 256;

#[inline]
fn luma_at(x: usize, r: usize) -> u8 {
    ((r + 37 * x) & 255) as u8
}
#[inline]
fn chroma_at(k: usize, cb: u8, cr: u8) -> (u8, u8) {
    match k {
        0 => (cb, cr),
        1 => (255 - cb, 255 - cr),
        2 => (cb.wrapping_add(85), cr.wrapping_add(170)),
        _ => (cb.wrapping_add(170), cr.wrapping_add(85)),
    }
}

/// Item `i` = (cb, cr); a 7x256 picture puts every Y into each of the four vector lanes and the
/// three remainder lanes; the per-column bijections make each pixel column see all 2^24 triples
/// over the whole enumeration.
fn item_all_colours(i: u64, acc: &mut Acc) {
    let c = coefficients();
    let (cb, cr) = ((i >> 8) as u8, (i & 255) as u8);
    let mut y = vec![0u8; W * H];
    for r in 0..H {
        for x in 0..W {
            y[x + r * W] = luma_at(x, r);
        }
    }
    let cw = (W + 1) / 2;
    let ch = H / 2;
    let mut pb = vec![0u8; cw * ch];
    let mut pr = vec![0u8; cw * ch];
    for row in 0..ch {
        for k in 0..cw {
            let (b, r) = chroma_at(k, cb, cr);
            pb[k + row * cw] = b;
            pr[k + row * cw] = r;
        }
    }
    let out = match guard(|| yuv420_to_rgba(&y, &pb, &pr, W)) {
        Ok(o) => o,
        Err(p) => {
            acc.fail(json!({"kind":"params","cb":cb,"cr":cr}), format!("yuv420_to_rgba panicked: {}", p));
            return;
        }
    };
    if out.len() != W * H * 4 {
        acc.fail(json!({"kind":"params","cb":cb,"cr":cr}), format!("output length {} != {}", out.len(), W * H * 4));
        return;
    }
    let mut prev: Option<[u8; 4]> = None;
    for r in 0..H {
        for x in 0..W {
            let yy = luma_at(x, r);
            let (b, rr) = chroma_at(x / 2, cb, cr);
            let got = [out[(x + r * W) * 4], out[(x + r * W) * 4 + 1], out[(x + r * W) * 4 + 2], out[(x + r * W) * 4 + 3]];
            let want = rgba_int(&c, yy, b, rr);
            if got != want {
                acc.fail(
                    json!({"kind":"params","cb":cb,"cr":cr,"y":yy,"pixel_cb":b,"pixel_cr":rr,"column":x,"path": if x < 4 {"vector lane"} else {"remainder lane"}}),
                    format!("(Y,Cb,Cr)=({},{},{}) in column {} -> {:?}, BT.601 16.16 model says {:?}", yy, b, rr, x, got, want),
                );
                return;
            }
            let real = rgb_real(yy, b, rr);
            for ch in 0..3 {
                if (got[ch] as f64 - real[ch]).abs() > 1.0 {
                    acc.fail(
                        json!({"kind":"params","cb":cb,"cr":cr,"y":yy,"pixel_cb":b,"pixel_cr":rr,"column":x}),
                        format!("(Y,Cb,Cr)=({},{},{}) channel {} = {} but real-valued BT.601 gives {:.4}", yy, b, rr, ch, got[ch], real[ch]),
                    );
                    return;
                }
            }
            // monotone in Y: column 0 walks Y = 0..255 in order
            if x == 0 {
                if let Some(p) = prev {
                    if got[0] < p[0] || got[1] < p[1] || got[2] < p[2] {
                        acc.fail(
                            json!({"kind":"params","cb":cb,"cr":cr,"y":yy}),
                            format!("not monotone in Y at (Y,Cb,Cr)=({},{},{}): {:?} after {:?}", yy, cb, cr, got, p),
                        );
                        return;
                    }
                }
                prev = Some(got);
            }
        }
    }
    acc.count_n((W * H) as u64, H as u64);
    if i == 0x5AA5 {
        acc.sample(|| json!({"cb": cb, "cr": cr, "picture": "7x256, luma (r+37x)&255", "first_pixels_rgba": &out[..16]}));
    }
}

/// Item `i` = (Y, other chroma); the swept chroma component runs 0..255 down the chroma rows.
/// sweep_cr = true: Cr swept (R must not decrease, G must not increase); false: Cb swept (B / G).
fn item_chroma_sweep(i: u64, sweep_cr: bool, acc: &mut Acc) {
    let c = coefficients();
    let (yy, other) = ((i >> 8) as u8, (i & 255) as u8);
    let w = 4usize;
    let h = 512usize;
    // the planes start at byte offsets 0..3 of their buffers, varying with the item
    let (oy, ob, or) = ((i % 4) as usize, ((i >> 2) % 4) as usize, ((i >> 4) % 4) as usize);
    let ybuf = vec![yy; w * h + 3];
    let y = &ybuf[oy..oy + w * h];
    let cw = 2;
    let ch = 256;
    let mut pbbuf = vec![0u8; cw * ch + 3];
    let mut prbuf = vec![0u8; cw * ch + 3];
    let pb = &mut pbbuf[ob..ob + cw * ch];
    let pr = &mut prbuf[or..or + cw * ch];
    for k in 0..ch {
        for x in 0..cw {
            if sweep_cr {
                pb[x + k * cw] = other;
                pr[x + k * cw] = k as u8;
            } else {
                pb[x + k * cw] = k as u8;
                pr[x + k * cw] = other;
            }
        }
    }
    let (pb, pr) = (&*pb, &*pr);
    let out = match guard(|| yuv420_to_rgba(y, pb, pr, w)) {
        Ok(o) => o,
        Err(p) => {
            acc.fail(json!({"kind":"params","y":yy,"other":other,"sweep_cr":sweep_cr}), format!("panicked: {}", p));
            return;
        }
    };
    let mut prev: Option<[u8; 4]> = None;
    for k in 0..ch {
        let px = (k * 2 * w) * 4;
        let got = [out[px], out[px + 1], out[px + 2], out[px + 3]];
        let (b, r) = if sweep_cr { (other, k as u8) } else { (k as u8, other) };
        let want = rgba_int(&c, yy, b, r);
        if got != want {
            acc.fail(
                json!({"kind":"params","y":yy,"cb":b,"cr":r}),
                format!("(Y,Cb,Cr)=({},{},{}) -> {:?}, model {:?}", yy, b, r, got, want),
            );
            return;
        }
        if let Some(p) = prev {
            let bad = if sweep_cr {
                got[0] < p[0] || got[1] > p[1] || got[2] != p[2]
            } else {
                got[2] < p[2] || got[1] > p[1] || got[0] != p[0]
            };
            if bad {
                acc.fail(
                    json!({"kind":"params","y":yy,"cb":b,"cr":r,"sweep_cr":sweep_cr}),
                    format!("monotonicity/independence broken at (Y,Cb,Cr)=({},{},{}): {:?} after {:?}", yy, b, r, got, p),
                );
                return;
            }
        }
        prev = Some(got);
    }
    acc.count_n(ch as u64, ch as u64);
}

/// The value of a pixel depends on its own triple only: small pictures whose planes are assembled
/// from a few repeated row templates over one-to-three-value alphabets (black level, mid-grey,
/// clamping values, ...), so that equal groups, equal rows, Cb rows equal to Cr rows and special
/// values sit next to different ones; every pixel is compared with the model of its own triple.
fn context_case(g: &mut crate::gen::Gen) -> Verdict {
    let wide = g.chance(1, 300);
    let w = if wide { g.range(4090, 9000) } else if g.chance(1, 3) { g.range(1, 9) } else { g.range(4, 40) } as usize;
    let h = if wide { g.range(2, 3) } else { g.range(1, 10) } as usize;
    let sparse = g.chance(1, 4);
    let mut src = || g.byte();
    let family = if sparse { 5 } else { 4 };
    let (y, cb, cr) = if wide {
        // thousands of samples per row: non-periodic bytes expanded from one tape word
        let seed = ((src() as u64) << 8 | src() as u64) << 16 | w as u64;
        let (cw, ch) = ((w + 1) / 2, (h + 1) / 2);
        (super::content_bytes(seed, w * h), super::content_bytes(seed ^ 0xCB, cw * ch), super::content_bytes(seed ^ 0xC4, cw * ch))
    } else {
        super::c08::planes(w, h, family, &mut src)
    };
    g.describe(|| json!({"w": w, "h": h, "y": y, "cb": cb, "cr": cr}));
    // the planes are handed over at byte offsets 0..3 of their buffers (slices of packed frames)
    let offs = (g.below(4) as usize, g.below(4) as usize, g.below(4) as usize);
    match super::c08::check_picture_at(w, &y, &cb, &cr, offs) {
        Err(m) => Verdict::fail(m),
        Ok(()) => {
            let cw = (w + 1) / 2;
            // non-trivial: some group of four equals its left neighbour in luma, or two luma rows are equal
            let mut l: Labels = Vec::new();
            let equal_groups = (0..h).any(|r| (1..w / 4).any(|k| y[r * w + 4 * k..r * w + 4 * k + 4] == y[r * w + 4 * k - 4..r * w + 4 * k]));
            let equal_rows = (1..h).any(|r| y[r * w..(r + 1) * w] == y[(r - 1) * w..r * w]);
            let cb_is_cr_row = (0..(h + 1) / 2).any(|r| cb[r * cw..(r + 1) * cw] == cr[r * cw..(r + 1) * cw]);
            let grey = cb.iter().zip(cr.iter()).any(|(b, r)| *b == 128 && *r == 128);
            if equal_groups {
                l.push("equal neighbouring luma groups");
            }
            if equal_rows {
                l.push("equal neighbouring luma rows");
            }
            if cb_is_cr_row {
                l.push("a Cb row equal to the Cr row");
            }
            if grey {
                l.push("colourless samples (Cb = Cr = 128)");
            }
            if sparse {
                l.push("uniform planes with a few deviating samples");
            }
            let mut key = crate::bits::fnv64(&y);
            key = crate::bits::fnv64_extend(key, &cb);
            key = crate::bits::fnv64_extend(key, &cr);
            Verdict::pass_l(equal_groups || equal_rows || sparse, key ^ ((w as u64) << 50), l)
        }
    }
}

pub fn run(ctx: &Ctx) -> i32 {
    let mut reports = vec![super::regression_suite(ctx)];
    // coefficient sanity: the recomputed constants must be the documented ones
    reports.push(simple_suite("coefficients", true, |acc| {
        let c = coefficients();
        acc.count(true);
        acc.count(true);
        if c != [76309, 104597, -53279, -25675, 132201] {
            acc.fail(json!({"kind":"params"}), format!("harness BT.601 constants {:?} differ from the documented ones", c));
        }
    }));
    reports.push(exhaustive_suite(ctx, "all_colours_all_lanes", 65536, &item_all_colours));
    reports.push(exhaustive_suite(ctx, "cr_sweep_monotone", 65536, &|i, acc| item_chroma_sweep(i, true, acc)));
    reports.push(exhaustive_suite(ctx, "cb_sweep_monotone", 65536, &|i, acc| item_chroma_sweep(i, false, acc)));
    let exhaustive = reports.iter().skip(1).all(|r| r.exhaustive);
    reports.push(tape_suite(ctx, "triples_among_repeating_neighbours", ctx.tier.pick(150_000, 2_000_000), 700, &context_case));
    let mut extra = Map::new();
    extra.insert("domain".into(), json!("all 2^24 (Y,Cb,Cr) triples in each of 4 vector lanes and 3 remainder lanes; all triples again in Cb- and Cr-sweeps"));
    finish(
        ctx,
        reports,
        Summary {
            rule: "Enumerated: for every (Cb,Cr) a 7x256 picture carries every Y in every pixel column (4 vector lanes + 3 remainder lanes), so each of the 2^24 triples is converted 7 times; distinct_nontrivial counts each triple once per suite (every triple is non-trivial). Oracle: 16.16 integer BT.601 model with constants recomputed from the definitions, |out - real formula| <= 1, alpha = 255, monotonicity along Y / Cb / Cr checked on the implementation's output. triples_among_repeating_neighbours (generated, not part of the completeness claim) converts small pictures full of equal neighbouring groups / rows / planes and special values and compares every pixel with the model of its own triple: the result may depend on nothing else.",
            assumptions: vec!["little-endian target (the crate's big-endian branch is not compiled here)".into()],
            exhaustive,
            extra,
        },
    )
}

pub fn replay(suite: &str, case: &Value) -> Option<Verdict> {
    let mut acc = Acc::default();
    match suite {
        "all_colours_all_lanes" | "regressions" => {
            let cb = case["cb"].as_u64()?;
            let cr = case["cr"].as_u64()?;
            item_all_colours(cb << 8 | cr, &mut acc);
        }
        "cr_sweep_monotone" | "cb_sweep_monotone" => {
            let y = case["y"].as_u64()?;
            let sweep_cr = suite == "cr_sweep_monotone";
            let other = if sweep_cr { case["cb"].as_u64()? } else { case["cr"].as_u64()? };
            item_chroma_sweep(y << 8 | other, sweep_cr, &mut acc);
        }
        "triples_among_repeating_neighbours" => {
            let tape = super::tape_of(case)?;
            let mut g = crate::gen::Gen::new(&tape);
            return Some(context_case(&mut g));
        }
        _ => return None,
    }
    Some(match acc.failure {
        Some((_, _, msg, _)) => Verdict::fail(msg),
        None => Verdict::pass(true, 0),
    })
}
