//! C14 - the bit reader delivers each bit once, in order, under any mix of operations.

use crate::bits::{bytes_to_bits, fnv64};
use crate::gen::Gen;
use crate::io::*;
use crate::runner::*;
use h263_rs::parser::H263Reader;
use h263_rs::verif_hooks as hk;
use h263_rs::Error;
use serde_json::{json, Map, Value};
use std::io::Read;

#[derive(Clone, Copy, Debug, PartialEq, Eq)]
pub enum Ty {
    U8,
    U16,
    U32,
    U64,
    I16,
    I32,
    I64,
    U128,
    I128,
}

impl Ty {
    fn width(self) -> u32 {
        match self {
            Ty::U8 => 8,
            Ty::U16 | Ty::I16 => 16,
            Ty::U32 | Ty::I32 => 32,
            Ty::U64 | Ty::I64 => 64,
            Ty::U128 | Ty::I128 => 128,
        }
    }
    const ALL: [Ty; 10] = [Ty::U8, Ty::U16, Ty::U32, Ty::U64, Ty::I16, Ty::I32, Ty::I64, Ty::U128, Ty::I128, Ty::U32];
}

#[derive(Clone, Copy, Debug, PartialEq, Eq)]
pub enum BlockKind {
    Transaction,
    Union,
    Lookahead,
}

#[derive(Clone, Copy, Debug, PartialEq, Eq)]
pub enum Ending {
    Ok,
    /// Ok(None) of with_transaction_union
    None,
    Err,
}

/// A prefix-code table: node = Fork(zero, one) | End(value)
#[derive(Clone, Debug, PartialEq, Eq)]
pub enum Node {
    Fork(usize, usize),
    End(u16),
}

#[derive(Clone, Debug, PartialEq, Eq)]
pub enum Op {
    Peek(Ty, u32),
    Read(Ty, u32),
    PeekSigned(Ty, u32),
    ReadSigned(Ty, u32),
    Skip(u32),
    ReadU8,
    /// only inside a block that propagates errors
    Vlc(Vec<Node>),
    /// only inside a block that propagates errors
    Umv,
    StartCode(bool),
    Commit,
    Block { kind: BlockKind, ops: Vec<Op>, ending: Ending, propagate: bool },
    /// growable sources only: append bytes to the source
    Push(Vec<u8>),
}

// ------------------------------------------------------------------------------------------------
// Bit-vector model

pub struct Model {
    pub bits: Vec<bool>,
    pub p: usize,
    pub consumed: Vec<bool>,
}

#[derive(Clone, Debug, PartialEq)]
pub enum Want {
    /// the exact textual outcome
    Exact(String),
    /// start-code recognition at model position p: judged by predicate
    Start { p: usize, in_error: bool, len: usize },
}

fn field(bits: &[bool], p: usize, n: u32) -> u128 {
    let mut v = 0u128;
    for i in 0..n as usize {
        v = (v << 1) | bits[p + i] as u128;
    }
    v
}

fn is_start_code(bits: &[bool], at: usize) -> Option<bool> {
    // None: not enough data to tell
    if at + 17 > bits.len() {
        return None;
    }
    Some(bits[at..at + 16].iter().all(|b| !*b) && bits[at + 16])
}

const EOF: &str = "Err(eof)";
/// An error whose kind the property does not fix (over-wide width, invalid vector code): any
/// error value satisfies the expectation.
const INTERNAL: &str = "Err(*)";

impl Model {
    fn mask(w: u32) -> u128 {
        if w >= 128 {
            u128::MAX
        } else {
            (1u128 << w) - 1
        }
    }

    /// Returns (expected outcome, did the op fail?) and advances the model.
    fn flat(&mut self, op: &Op) -> (Want, bool) {
        match op {
            Op::Peek(t, n) | Op::Read(t, n) => {
                let n = *n;
                if n > t.width() {
                    return (Want::Exact(INTERNAL.into()), true);
                }
                if n == 0 {
                    return (Want::Exact("Ok(0)".into()), false);
                }
                if self.p + n as usize > self.bits.len() {
                    return (Want::Exact(EOF.into()), true);
                }
                let v = field(&self.bits, self.p, n);
                if matches!(op, Op::Read(..)) {
                    self.consumed.extend_from_slice(&self.bits[self.p..self.p + n as usize]);
                    self.p += n as usize;
                }
                (Want::Exact(format!("Ok({})", v)), false)
            }
            Op::PeekSigned(t, n) | Op::ReadSigned(t, n) => {
                let n = *n;
                if n > t.width() {
                    return (Want::Exact(INTERNAL.into()), true);
                }
                if self.p + n as usize > self.bits.len() {
                    return (Want::Exact(EOF.into()), true);
                }
                let raw = field(&self.bits, self.p, n);
                // two's-complement sign extension of the n-bit field into the type's width
                let v = if (raw >> (n - 1)) & 1 == 1 { (raw | !Self::mask(n)) & Self::mask(t.width()) } else { raw };
                if matches!(op, Op::ReadSigned(..)) {
                    self.consumed.extend_from_slice(&self.bits[self.p..self.p + n as usize]);
                    self.p += n as usize;
                }
                (Want::Exact(format!("Ok({})", v)), false)
            }
            Op::Skip(n) => {
                if self.p + *n as usize > self.bits.len() {
                    return (Want::Exact(EOF.into()), true);
                }
                self.consumed.extend_from_slice(&self.bits[self.p..self.p + *n as usize]);
                self.p += *n as usize;
                (Want::Exact("Ok".into()), false)
            }
            Op::ReadU8 => self.flat(&Op::Read(Ty::U8, 8)),
            Op::Vlc(table) => {
                let mut idx = 0usize;
                let mut q = self.p;
                loop {
                    match table.get(idx) {
                        None => return (Want::Exact(INTERNAL.into()), true),
                        Some(Node::End(v)) => {
                            self.consumed.extend_from_slice(&self.bits[self.p..q]);
                            self.p = q;
                            return (Want::Exact(format!("Ok({})", v)), false);
                        }
                        Some(Node::Fork(z, o)) => {
                            if q >= self.bits.len() {
                                return (Want::Exact(EOF.into()), true);
                            }
                            idx = if self.bits[q] { *o } else { *z };
                            q += 1;
                        }
                    }
                }
            }
            Op::Umv => {
                // Table D.3: "1" = 0; otherwise 0 (x 1)* s 0 with value = +-(binary 1 x...x)
                let mut q = self.p;
                let need = |q: usize, n: usize, bits: &Vec<bool>| q + n <= bits.len();
                if !need(q, 1, &self.bits) {
                    return (Want::Exact(EOF.into()), true);
                }
                if self.bits[q] {
                    self.consumed.push(true);
                    self.p += 1;
                    return (Want::Exact("Ok(0)".into()), false);
                }
                q += 1;
                let mut magnitude: i64 = 1;
                loop {
                    if magnitude >= 4096 {
                        return (Want::Exact("Err(invalid mvd)".into()), true);
                    }
                    if !need(q, 2, &self.bits) {
                        return (Want::Exact(EOF.into()), true);
                    }
                    let (a, b) = (self.bits[q], self.bits[q + 1]);
                    q += 2;
                    if !b {
                        let v = if a { -magnitude } else { magnitude };
                        self.consumed.extend_from_slice(&self.bits[self.p..q]);
                        self.p = q;
                        return (Want::Exact(format!("Ok({})", v)), false);
                    }
                    magnitude = (magnitude << 1) | a as i64;
                }
            }
            Op::StartCode(e) => (Want::Start { p: self.p, in_error: *e, len: self.bits.len() }, false),
            Op::Commit => (Want::Exact("Ok".into()), false),
            Op::Push(b) => {
                self.bits.extend(bytes_to_bits(b));
                (Want::Exact("Ok".into()), false)
            }
            Op::Block { .. } => unreachable!(),
        }
    }

    /// Run ops on the model, appending expectations. Returns Err(()) when an error propagates.
    fn run(&mut self, ops: &[Op], propagate: bool, out: &mut Vec<Want>) -> Result<(), ()> {
        for op in ops {
            if let Op::Block { kind, ops: inner, ending, propagate: inner_prop } = op {
                let p0 = self.p;
                let c0 = self.consumed.len();
                let r = self.run(inner, *inner_prop, out);
                let failed = r.is_err() || *ending == Ending::Err;
                let restore = failed || *kind == BlockKind::Lookahead || (*kind == BlockKind::Union && *ending == Ending::None);
                if restore {
                    self.p = p0;
                    self.consumed.truncate(c0);
                }
                let text = if failed {
                    "block Err"
                } else if *kind == BlockKind::Union && *ending == Ending::None {
                    "block None"
                } else {
                    "block Ok"
                };
                out.push(Want::Exact(text.into()));
                if failed && propagate {
                    return Err(());
                }
            } else {
                let (w, failed) = self.flat(op);
                out.push(w);
                if failed && propagate && !matches!(op, Op::StartCode(_)) {
                    return Err(());
                }
            }
        }
        Ok(())
    }
}

// ------------------------------------------------------------------------------------------------
// Execution on the real reader

fn err_text(e: &Error) -> String {
    if e.is_eof_error() {
        return EOF.into();
    }
    match e {
        Error::InternalDecoderError => INTERNAL.into(),
        Error::InvalidMvd => "Err(invalid mvd)".into(),
        other => format!("Err({:?})", other),
    }
}

fn to_table(t: &[Node]) -> Vec<hk::Entry<u16>> {
    t.iter()
        .map(|n| match n {
            Node::Fork(a, b) => hk::Entry::Fork(*a, *b),
            Node::End(v) => hk::Entry::End(*v),
        })
        .collect()
}

macro_rules! typed {
    ($r:expr, $meth:ident, $t:expr, $n:expr) => {
        match $t {
            Ty::U8 => $r.$meth::<u8>($n).map(|v| v as u128),
            Ty::U16 => $r.$meth::<u16>($n).map(|v| v as u128),
            Ty::U32 => $r.$meth::<u32>($n).map(|v| v as u128),
            Ty::U64 => $r.$meth::<u64>($n).map(|v| v as u128),
            Ty::I16 => $r.$meth::<i16>($n).map(|v| v as u16 as u128),
            Ty::I32 => $r.$meth::<i32>($n).map(|v| v as u32 as u128),
            Ty::I64 => $r.$meth::<i64>($n).map(|v| v as u64 as u128),
            Ty::U128 => $r.$meth::<u128>($n),
            Ty::I128 => $r.$meth::<i128>($n).map(|v| v as u128),
        }
    };
}

fn num(r: Result<u128, Error>) -> (String, bool) {
    match r {
        Ok(v) => (format!("Ok({})", v), false),
        Err(e) => (err_text(&e), true),
    }
}

fn exec<R: Read>(r: &mut H263Reader<R>, ops: &[Op], propagate: bool, out: &mut Vec<String>, push: &dyn Fn(&[u8])) -> Result<(), Error> {
    for op in ops {
        let (text, failed): (String, bool) = match op {
            Op::Peek(t, n) => num(typed!(r, peek_bits, *t, *n)),
            Op::Read(t, n) => num(typed!(r, read_bits, *t, *n)),
            Op::PeekSigned(t, n) => num(typed!(r, peek_signed_bits, *t, *n)),
            Op::ReadSigned(t, n) => num(typed!(r, read_signed_bits, *t, *n)),
            Op::Skip(n) => match r.skip_bits(*n) {
                Ok(()) => ("Ok".into(), false),
                Err(e) => (err_text(&e), true),
            },
            Op::ReadU8 => num(r.read_u8().map(|v| v as u128)),
            Op::Vlc(t) => {
                let table = to_table(t);
                match r.read_vlc(&table[..]) {
                    Ok(v) => (format!("Ok({})", v), false),
                    Err(e) => (err_text(&e), true),
                }
            }
            Op::Umv => match r.read_umv() {
                Ok(v) => {
                    // recover the half-sample count from the public API: v = 2 * whole + half
                    let (whole, half) = v.into_lerp_parameters();
                    (format!("Ok({})", whole as i32 * 2 + half as i32), false)
                }
                Err(e) => (err_text(&e), true),
            },
            Op::StartCode(e) => match r.recognize_start_code(*e) {
                Ok(Some(k)) => (format!("Some({})", k), false),
                Ok(None) => ("None".into(), false),
                Err(e) => (err_text(&e), false),
            },
            Op::Commit => {
                r.commit();
                ("Ok".into(), false)
            }
            Op::Push(b) => {
                push(b);
                ("Ok".into(), false)
            }
            Op::Block { kind, ops: inner, ending, propagate: inner_prop } => {
                let mut inner_out: Vec<String> = Vec::new();
                let res: Result<bool, Error> = match kind {
                    BlockKind::Transaction => r
                        .with_transaction(|r| {
                            exec(r, inner, *inner_prop, &mut inner_out, push)?;
                            if *ending == Ending::Err {
                                Err(Error::InvalidBitstream)
                            } else {
                                Ok(())
                            }
                        })
                        .map(|_| true),
                    BlockKind::Union => r
                        .with_transaction_union(|r| {
                            exec(r, inner, *inner_prop, &mut inner_out, push)?;
                            match ending {
                                Ending::Err => Err(Error::InvalidBitstream),
                                Ending::None => Ok(None),
                                Ending::Ok => Ok(Some(())),
                            }
                        })
                        .map(|o| o.is_some()),
                    BlockKind::Lookahead => r
                        .with_lookahead(|r| {
                            exec(r, inner, *inner_prop, &mut inner_out, push)?;
                            if *ending == Ending::Err {
                                Err(Error::InvalidBitstream)
                            } else {
                                Ok(())
                            }
                        })
                        .map(|_| true),
                };
                out.append(&mut inner_out);
                match res {
                    Ok(true) => ("block Ok".into(), false),
                    Ok(false) => ("block None".into(), false),
                    Err(_) => ("block Err".into(), true),
                }
            }
        };
        out.push(text);
        if failed && propagate {
            return Err(Error::InvalidBitstream);
        }
    }
    Ok(())
}

fn judge_start(bits: &[bool], p: usize, in_error: bool, got: &str) -> Result<(), String> {
    // nearest start code at or after p, if the data shows one
    let mut nearest: Option<usize> = None;
    let mut k = 0;
    while p + k + 17 <= bits.len() {
        if is_start_code(bits, p + k) == Some(true) {
            nearest = Some(k);
            break;
        }
        k += 1;
    }
    let realign = (8 - p % 8) % 8;
    let parse_some = |s: &str| -> Option<usize> { s.strip_prefix("Some(").and_then(|x| x.strip_suffix(')')).and_then(|x| x.parse().ok()) };
    if let Some(k) = parse_some(got) {
        if nearest != Some(k) {
            return Err(format!("recognize_start_code({}) at bit {} reported a start code {} bits ahead, but the nearest one is {:?}", in_error, p, k, nearest));
        }
        if !in_error && k > 8 {
            return Err(format!("recognize_start_code(false) at bit {} looked {} bits ahead (more than one byte of stuffing)", p, k));
        }
        return Ok(());
    }
    if in_error {
        // must find the nearest one or report end of data
        return match (nearest, got) {
            (None, g) if g == EOF => Ok(()),
            (None, g) => Err(format!("recognize_start_code(true) at bit {}: no start code in the data, expected end-of-data, got {}", p, g)),
            (Some(k), g) => Err(format!("recognize_start_code(true) at bit {}: nearest start code is {} bits ahead, got {}", p, k, g)),
        };
    }
    // not in error: a start code within the realignment distance must be reported
    if let Some(k) = nearest {
        if k <= realign {
            return Err(format!("recognize_start_code(false) at bit {} (realignment distance {}): a start code {} bits ahead was not reported ({})", p, realign, k, got));
        }
    }
    if got == "None" || got == EOF {
        Ok(())
    } else {
        Err(format!("recognize_start_code(false) at bit {}: unexpected result {}", p, got))
    }
}

#[derive(Clone, Copy, Debug, PartialEq, Eq)]
pub enum SourceKind {
    Slice,
    Chunked(usize),
    Growable,
    /// short reads, with `ErrorKind::Interrupted` reported on every k-th call (invisible by the
    /// `Read` contract: a reader retries it)
    Interrupted(usize, usize),
}

/// Run a sequence on the real reader and on the model; compare every observation, then drain.
pub fn check_sequence(data: &[u8], src: SourceKind, ops: &[Op]) -> Result<(u64, bool, bool, bool), String> {
    let mut model = Model { bits: bytes_to_bits(data), p: 0, consumed: Vec::new() };
    let mut want = Vec::new();
    let _ = model.run(ops, false, &mut want);
    let mut got: Vec<String> = Vec::new();
    let rest: Vec<bool>;
    let run = |got: &mut Vec<String>| -> Result<Vec<bool>, String> {
        match src {
            SourceKind::Slice => {
                let mut r = H263Reader::from_source(data);
                guard(|| exec(&mut r, ops, false, got, &|_| {})).map_err(|p| format!("reader panicked: {}", p))?.ok();
                Ok(drain_fast(&mut r))
            }
            SourceKind::Chunked(c) => {
                let mut r = H263Reader::from_source(Chunked::new(data, c));
                guard(|| exec(&mut r, ops, false, got, &|_| {})).map_err(|p| format!("reader panicked: {}", p))?.ok();
                Ok(drain_fast(&mut r))
            }
            SourceKind::Interrupted(c, k) => {
                let schedule: Vec<u8> = (0..k.max(1)).map(|i| if i == 0 { 2 } else { 0 }).collect();
                let mut r = H263Reader::from_source(Flaky::new(data, c, schedule, false));
                guard(|| exec(&mut r, ops, false, got, &|_| {})).map_err(|p| format!("reader panicked: {}", p))?.ok();
                Ok(drain_fast(&mut r))
            }
            SourceKind::Growable => {
                let g = Growable::new();
                g.push(data);
                let mut r = H263Reader::from_source(g.clone());
                let g2 = g.clone();
                guard(|| exec(&mut r, ops, false, got, &move |b| g2.push(b))).map_err(|p| format!("reader panicked: {}", p))?.ok();
                Ok(drain_fast(&mut r))
            }
        }
    };
    rest = run(&mut got)?;
    if got.len() != want.len() {
        return Err(format!("operation log lengths differ: reader {} entries, model {} (reader log {:?})", got.len(), want.len(), got));
    }
    let mut start_ops = false;
    for (i, (g, w)) in got.iter().zip(want.iter()).enumerate() {
        match w {
            Want::Exact(s) => {
                if s == INTERNAL || s == "Err(invalid mvd)" {
                    if !g.starts_with("Err(") {
                        return Err(format!("observation {}: reader gave {}, an error was expected (log so far {:?})", i, g, &got[..=i]));
                    }
                } else if g != s {
                    return Err(format!("observation {}: reader gave {}, bit-vector model gives {} (log so far {:?})", i, g, s, &got[..=i]));
                }
            }
            Want::Start { p, in_error, len } => {
                start_ops = true;
                // judged against the bits that were in the source when the operation ran
                judge_start(&model.bits[..*len], *p, *in_error, g).map_err(|m| format!("observation {}: {}", i, m))?;
            }
        }
    }
    // every bit not consumed must still be there, in order
    let remaining = &model.bits[model.p..];
    if rest != remaining {
        let at = rest.iter().zip(remaining.iter()).position(|(a, b)| a != b);
        return Err(format!(
            "after the sequence the reader delivers {} further bits, the model {} (position {}); first difference at {:?}",
            rest.len(),
            remaining.len(),
            model.p,
            at
        ));
    }
    let has_rollback = want.iter().any(|w| matches!(w, Want::Exact(s) if s == "block Err" || s == "block None"));
    let straddle = want.iter().any(|w| matches!(w, Want::Exact(s) if s == EOF));
    let has_commit = contains_commit(ops);
    let mut key = fnv64(data);
    key = crate::bits::fnv64_extend(key, format!("{:?}{:?}", ops, src).as_bytes());
    Ok((key, has_rollback || straddle || has_commit, start_ops, has_rollback))
}

fn contains_commit(ops: &[Op]) -> bool {
    ops.iter().any(|o| match o {
        Op::Commit => true,
        Op::Block { ops, .. } => contains_commit(ops),
        _ => false,
    })
}

/// Drain the reader: 64 bits at a time while that succeeds, then bit by bit.
fn drain_fast<R: Read>(r: &mut H263Reader<R>) -> Vec<bool> {
    let mut out = Vec::new();
    loop {
        match guard(|| r.read_bits::<u64>(64)) {
            Ok(Ok(v)) => {
                for i in (0..64).rev() {
                    out.push((v >> i) & 1 == 1);
                }
            }
            _ => break,
        }
        if out.len() > 1 << 24 {
            break;
        }
    }
    out.extend(super::c15::drain_bits(r));
    out
}

// ------------------------------------------------------------------------------------------------
// Generators

fn gen_table(g: &mut Gen) -> Vec<Node> {
    // random full binary tree with 2..=10 leaves, nodes in arbitrary index order
    let leaves = g.range(2, 10) as usize;
    let mut nodes: Vec<Node> = vec![Node::End(0)];
    let mut leaf_idx = vec![0usize];
    while leaf_idx.len() < leaves {
        let pick = g.below(leaf_idx.len() as u32) as usize;
        let at = leaf_idx.swap_remove(pick);
        let a = nodes.len();
        nodes.push(Node::End(0));
        nodes.push(Node::End(0));
        nodes[at] = Node::Fork(a, a + 1);
        leaf_idx.push(a);
        leaf_idx.push(a + 1);
    }
    let mut v = 1;
    for n in nodes.iter_mut() {
        if let Node::End(x) = n {
            *x = v;
            v += 1;
        }
    }
    nodes
}

fn gen_flat(g: &mut Gen, in_propagating_block: bool, big: bool) -> Op {
    let ty = *g.pick(&Ty::ALL);
    let n_any = |g: &mut Gen, ty: Ty| -> u32 {
        match g.weighted(&[6, 2, 1]) {
            0 => g.range(0, ty.width() as i64) as u32,
            1 => *g.pick(&[1u32, 7, 8, 9, 16, 17, 31, 32, 33, 63, 64, 65, 72, 73, 100, 127, 128]).min(&(ty.width() + 2)),
            _ => ty.width() + g.range(1, 2) as u32,
        }
    };
    match g.weighted(&[6, 3, 3, 2, 3, 1, 2, 1, 2, 2]) {
        0 => Op::Read(ty, n_any(g, ty)),
        1 => Op::Peek(ty, n_any(g, ty)),
        2 => Op::ReadSigned(ty, n_any(g, ty).max(1)),
        3 => Op::PeekSigned(ty, n_any(g, ty).max(1)),
        4 => Op::Skip(match g.weighted(&[50, 20, 10, if big { 60 } else { 0 }, 3]) {
            0 => g.range(0, 16) as u32,
            1 => g.range(0, 70) as u32,
            2 => g.range(100, 400) as u32,
            3 => g.range(1_000, 200_000) as u32,
            // counts at the top of the 32-bit range and around its powers of two: beyond any source
            _ => *g.pick(&[u32::MAX, u32::MAX - 1, u32::MAX - 6, u32::MAX - 7, u32::MAX - 8, 1 << 31, (1 << 31) - 1, (1 << 31) + 7, 1 << 30, (1 << 29) + 3, 0x7FFF_FFF9]),
        }),
        5 => Op::ReadU8,
        6 => Op::StartCode(false),
        7 => Op::StartCode(true),
        8 => {
            if in_propagating_block {
                Op::Vlc(gen_table(g))
            } else {
                Op::Read(Ty::U8, g.range(0, 8) as u32)
            }
        }
        _ => {
            if in_propagating_block {
                Op::Umv
            } else {
                Op::Skip(g.range(0, 9) as u32)
            }
        }
    }
}

/// `commit_ok`: every enclosing block ends in success, so a commit may appear here.
fn gen_ops(g: &mut Gen, max: usize, depth: u32, in_propagating_block: bool, commit_ok: bool, growable: bool, big: bool) -> Vec<Op> {
    let n = g.range(0, max as i64) as usize;
    let mut ops = Vec::with_capacity(n);
    for _ in 0..n {
        let k = g.weighted(&[12, if depth < 3 { 4 } else { 0 }, if commit_ok { 2 } else { 0 }, if growable && depth == 0 { 2 } else { 0 }]);
        match k {
            0 => ops.push(gen_flat(g, in_propagating_block, big)),
            1 => {
                let kind = *g.pick(&[BlockKind::Transaction, BlockKind::Union, BlockKind::Lookahead]);
                let ending = match kind {
                    BlockKind::Union => *g.pick(&[Ending::Ok, Ending::None, Ending::Err]),
                    _ => *g.pick(&[Ending::Ok, Ending::Err]),
                };
                let propagate = g.chance(2, 3);
                // a commit inside is only legal when this block certainly ends in success: it must
                // not propagate inner failures and must end Ok, and it must not be a look-ahead
                let inner_commit_ok = commit_ok && kind != BlockKind::Lookahead && ending == Ending::Ok && !propagate;
                let inner = gen_ops(g, 6, depth + 1, propagate, inner_commit_ok, growable, big);
                ops.push(Op::Block { kind, ops: inner, ending, propagate });
            }
            2 => ops.push(Op::Commit),
            _ => {
                let n = g.range(1, 4) as usize;
                ops.push(Op::Push(gen_source_bytes(g, n)));
            }
        }
    }
    ops
}

/// Source bytes biased toward start codes at every bit phase, long zero runs, and short data.
fn gen_source_bytes(g: &mut Gen, max_len: usize) -> Vec<u8> {
    let n = g.range(0, max_len as i64) as usize;
    let mut bits: Vec<bool> = Vec::with_capacity(n * 8 + 40);
    while bits.len() < n * 8 {
        match g.weighted(&[5, 3, 2, 1, 1, 1]) {
            5 => {
                // the shape of an unrestricted-motion-vector code (Table D.3), often longer than
                // any valid one: 0, then (bit, 1) pairs, then (sign, 0)
                let pairs = g.range(1, 20) as usize;
                let fill = g.below(3);
                bits.push(false);
                for _ in 0..pairs {
                    bits.push(match fill {
                        0 => false,
                        1 => true,
                        _ => g.bool(),
                    });
                    bits.push(true);
                }
                bits.push(g.bool());
                bits.push(false);
            }
            4 => {
                // long zero run (several bytes of zero padding), usually followed by a marker bit
                let z = g.range(40, 200) as usize;
                for _ in 0..z {
                    bits.push(false);
                }
                if g.chance(3, 4) {
                    bits.push(true);
                }
            }
            0 => {
                let b = g.byte();
                for i in 0..8 {
                    bits.push(b & (0x80 >> i) != 0);
                }
            }
            1 => {
                // a start code at whatever phase we are at, possibly preceded by a few zero bits
                let z = g.range(0, 9) as usize;
                for _ in 0..z {
                    bits.push(false);
                }
                for _ in 0..16 {
                    bits.push(false);
                }
                bits.push(true);
            }
            2 => {
                let z = g.range(1, 30) as usize;
                for _ in 0..z {
                    bits.push(false);
                }
            }
            _ => {
                let o = g.range(1, 12) as usize;
                for _ in 0..o {
                    bits.push(true);
                }
            }
        }
    }
    bits.truncate(n * 8);
    if n >= 3 && g.chance(1, 12) {
        // the data ends exactly with a start code: its final 1 is the very last bit
        let len = bits.len();
        for b in bits[len - 17..len - 1].iter_mut() {
            *b = false;
        }
        bits[len - 1] = true;
    }
    crate::bits::bits_to_bytes(&bits)
}

/// libFuzzer entry: the input bytes are a choice tape (two bytes per word).
pub fn fuzz_entry(data: &[u8]) -> Result<(), String> {
    let tape: Vec<u32> = data.chunks(2).map(|c| ((c[0] as u32) << 24) | ((*c.get(1).unwrap_or(&0) as u32) << 16)).collect();
    // kilobyte-long sources are left to the in-process generator: under the sanitizer they would
    // dominate the campaign's time
    match random_case_with(&mut Gen::new(&tape), false) {
        Verdict::Fail { msg, .. } => Err(msg),
        _ => Ok(()),
    }
}

pub fn fuzz_replay(data: &[u8]) -> Verdict {
    match fuzz_entry(data) {
        Ok(()) => Verdict::pass(true, fnv64(data)),
        Err(m) => Verdict::fail(m),
    }
}

fn random_case(g: &mut Gen) -> Verdict {
    random_case_with(g, true)
}

fn random_case_with(g: &mut Gen, allow_long: bool) -> Verdict {
    let src = match g.below(7) {
        0 | 1 => SourceKind::Slice,
        2 | 3 => SourceKind::Chunked(g.range(1, 3) as usize),
        4 => SourceKind::Interrupted(g.range(1, 3) as usize, g.range(1, 5) as usize),
        _ => SourceKind::Growable,
    };
    // most sources are short (every bit position matters); some are medium; a few are tens of
    // kilobytes long (a short generated unit repeated) and are walked with large skips
    let size_class = g.weighted(&[30, 8, if allow_long { 1 } else { 0 }]);
    let data = match size_class {
        0 => gen_source_bytes(g, 24),
        1 => gen_source_bytes(g, 90),
        _ => {
            let unit = gen_source_bytes(g, 20);
            let unit = if unit.is_empty() { vec![0x5A] } else { unit };
            let reps = g.range(200, 2600) as usize;
            let mut d = Vec::with_capacity(unit.len() * reps);
            for _ in 0..reps {
                d.extend_from_slice(&unit);
            }
            d
        }
    };
    let ops = gen_ops(g, 60, 0, false, true, src == SourceKind::Growable, size_class == 2);
    g.describe(|| json!({"source": format!("{:?}", src), "data_len": data.len(), "data_hex": crate::bits::hex(&data[..data.len().min(200)]), "ops": format!("{:?}", ops)}));
    match check_sequence(&data, src, &ops) {
        Err(m) => Verdict::fail(m),
        Ok((key, nontrivial, start_ops, rollback)) => {
            let mut l: Labels = vec![match src {
                SourceKind::Slice => "source: slice",
                SourceKind::Chunked(_) => "source: short reads",
                SourceKind::Growable => "source: growable",
                SourceKind::Interrupted(..) => "source: short reads with interrupted calls",
            }];
            if start_ops {
                l.push("has start-code recognition");
            }
            if rollback {
                l.push("has rolled-back block");
            }
            l.push(["short source (<= 24 bytes)", "medium source (<= 90 bytes)", "long source (kilobytes)"][size_class]);
            Verdict::pass_l(nontrivial, key, l)
        }
    }
}

// ------------------------------------------------------------------------------------------------
// Bounded-exhaustive enumeration

fn alphabet() -> Vec<Op> {
    let t_small = vec![Node::Fork(1, 2), Node::End(7), Node::Fork(3, 4), Node::End(8), Node::Fork(5, 6), Node::End(9), Node::End(10)];
    let blk = |kind, ops: Vec<Op>, ending, propagate| Op::Block { kind, ops, ending, propagate };
    vec![
        Op::Read(Ty::U8, 0),
        Op::Read(Ty::U8, 1),
        Op::Read(Ty::U8, 3),
        Op::Read(Ty::U8, 8),
        Op::Read(Ty::U8, 9),
        Op::Read(Ty::U16, 7),
        Op::Read(Ty::U16, 16),
        Op::Read(Ty::U16, 17),
        Op::Read(Ty::U32, 17),
        Op::Read(Ty::U32, 32),
        Op::Read(Ty::U32, 33),
        Op::Read(Ty::U64, 33),
        Op::Read(Ty::U64, 64),
        Op::Read(Ty::I16, 16),
        Op::Peek(Ty::U8, 3),
        Op::Peek(Ty::U32, 17),
        Op::ReadSigned(Ty::I16, 1),
        Op::ReadSigned(Ty::I16, 5),
        Op::ReadSigned(Ty::I16, 16),
        Op::ReadSigned(Ty::I32, 23),
        Op::ReadSigned(Ty::U8, 6),
        Op::PeekSigned(Ty::I16, 4),
        Op::Skip(1),
        Op::Skip(7),
        Op::Skip(8),
        Op::Skip(13),
        Op::ReadU8,
        Op::StartCode(false),
        Op::StartCode(true),
        Op::Commit,
        blk(BlockKind::Transaction, vec![Op::Read(Ty::U8, 3)], Ending::Err, true),
        blk(BlockKind::Transaction, vec![Op::Read(Ty::U16, 9)], Ending::Ok, true),
        blk(BlockKind::Union, vec![Op::Skip(5)], Ending::None, true),
        blk(BlockKind::Union, vec![Op::Read(Ty::U8, 2)], Ending::Ok, true),
        blk(BlockKind::Lookahead, vec![Op::Read(Ty::U32, 20)], Ending::Ok, true),
        blk(BlockKind::Transaction, vec![Op::Vlc(t_small.clone())], Ending::Ok, true),
        blk(BlockKind::Transaction, vec![Op::Umv], Ending::Ok, true),
        blk(BlockKind::Transaction, vec![Op::Read(Ty::U32, 32), Op::Read(Ty::U8, 1)], Ending::Ok, true),
        blk(BlockKind::Transaction, vec![Op::Skip(3), blk(BlockKind::Transaction, vec![Op::Skip(4)], Ending::Err, true)], Ending::Ok, false),
        blk(BlockKind::Union, vec![Op::Vlc(t_small), Op::Read(Ty::U8, 8)], Ending::Err, true),
    ]
}

fn fixed_sources() -> Vec<Vec<u8>> {
    let mut v: Vec<Vec<u8>> = vec![
        vec![],
        vec![0x00],
        vec![0xFF],
        vec![0x00, 0x00],
        vec![0x00, 0x00, 0x80],
        vec![0x00, 0x00, 0x80, 0x00],
        vec![0x00, 0x00, 0x08, 0x00],
        vec![0x00, 0x00, 0x00, 0x80, 0x00],
        vec![0x13, 0x80, 0x00, 0x40, 0x00],
        vec![0xFF, 0x72, 0x1C, 0x1F],
        vec![0xA5, 0x00, 0x00, 0xC0, 0x00, 0x01, 0x00, 0x00, 0x81],
        vec![0x80, 0x00, 0x01, 0x00, 0x00, 0x80],
        vec![0x55; 9],
        vec![0x00; 9],
        vec![0xFF; 9],
        vec![0x7F, 0xFF, 0xFF, 0xFF, 0xFF, 0xFF, 0xFF, 0xFF, 0xFE],
    ];
    // a start code at each of the eight bit phases behind one data byte
    for phase in 0..8usize {
        let mut bits = bytes_to_bits(&[0xB6]);
        for _ in 0..phase {
            bits.push(false);
        }
        for _ in 0..16 {
            bits.push(false);
        }
        bits.push(true);
        bits.extend(bytes_to_bits(&[0x2D, 0xC3]));
        v.push(crate::bits::bits_to_bytes(&bits));
    }
    v
}

/// item = (source, start phase, first op); inner = all continuations up to the length bound.
fn enum_item(len: usize, i: u64, acc: &mut Acc) {
    let alpha = alphabet();
    let sources = fixed_sources();
    let a = alpha.len() as u64;
    let first = (i % a) as usize;
    let phase = ((i / a) % 8) as u32;
    let si = (i / a / 8) as usize;
    let data = &sources[si];
    let mut run = |ops: Vec<Op>, acc: &mut Acc| -> bool {
        for src in [SourceKind::Slice, SourceKind::Chunked(1)] {
            match check_sequence(data, src, &ops) {
                Err(m) => {
                    acc.fail(json!({"kind":"params","source_index":si,"data_hex":crate::bits::hex(data),"source":format!("{:?}",src),"ops":format!("{:?}",ops),"item":i,"len":len}), m);
                    return false;
                }
                Ok((_, nt, _, _)) => acc.count(nt),
            }
        }
        true
    };
    let prefix = vec![Op::Skip(phase), alpha[first].clone()];
    if !run(prefix.clone(), acc) {
        return;
    }
    if len >= 2 {
        for b in 0..alpha.len() {
            let mut o2 = prefix.clone();
            o2.push(alpha[b].clone());
            if !run(o2.clone(), acc) {
                return;
            }
            if len >= 3 {
                for c in 0..alpha.len() {
                    let mut o3 = o2.clone();
                    o3.push(alpha[c].clone());
                    if !run(o3, acc) {
                        return;
                    }
                }
            }
        }
    }
    if i == 1234 {
        acc.sample(|| json!({"data_hex": crate::bits::hex(data), "start_phase": phase, "first_op": format!("{:?}", alpha[first]), "continuations": format!("all sequences of up to {} ops over a {}-op alphabet", len, alpha.len())}));
    }
}

/// Every *form* of an unrestricted-motion-vector code (Table D.3): 0 to 22 (bit, continue) pairs
/// with five mantissa patterns, both terminators, at every start phase - valid codes must give
/// their value, longer ones must be refused (inside a transaction, leaving the reader where it
/// was), and then the reader must re-deliver what is left.
fn umv_forms_suite() -> SuiteReport {
    simple_suite("umv_code_forms", true, |acc| {
        for pairs in 0..=22usize {
            for pattern in 0..5u32 {
                for neg in [false, true] {
                    for phase in 0..8usize {
                        let mut bits: Vec<bool> = (0..phase).map(|i| i % 2 == 1).collect();
                        bits.push(false);
                        for k in 0..pairs {
                            bits.push(match pattern {
                                0 => false,
                                1 => true,
                                2 => k % 2 == 0,
                                3 => k == 0,
                                _ => k + 1 == pairs,
                            });
                            bits.push(true);
                        }
                        bits.push(neg);
                        bits.push(false);
                        // something after the code
                        for i in 0..11 {
                            bits.push(i % 3 == 0);
                        }
                        let data = crate::bits::bits_to_bytes(&bits);
                        let ops = vec![Op::Skip(phase as u32), Op::Block { kind: BlockKind::Transaction, ops: vec![Op::Umv], ending: Ending::Ok, propagate: true }, Op::Read(Ty::U8, 5)];
                        acc.count(pairs >= 11);
                        if let Err(m) = check_sequence(&data, SourceKind::Slice, &ops) {
                            acc.fail(json!({"kind":"params","suite":"umv_forms","pairs":pairs,"pattern":pattern,"negative":neg,"phase":phase}), format!("Table D.3 code form with {} pairs (mantissa pattern {}, {} terminator) at bit {}: {}", pairs, pattern, if neg { "negative" } else { "positive" }, phase, m));
                            return;
                        }
                    }
                }
            }
        }
        acc.sample(|| json!({"pairs": "0..=22", "mantissa_patterns": ["all 0", "all 1", "alternating", "1 then 0s", "0s then 1"], "terminators": 2, "phases": 8}));
    })
}

/// Deeply nested blocks (9 to 16 levels; the parser itself nests about four): a chain of
/// transactions / unions / look-aheads, a few reads at every level, some levels failing with the
/// failure absorbed one level up.
fn deep_nesting_case(g: &mut Gen) -> Verdict {
    let depth = g.range(9, 16) as usize;
    let data = gen_source_bytes(g, 40);
    // build from the innermost level outwards
    let mut inner: Vec<Op> = vec![gen_flat(g, false, false)];
    let mut absorbed_failure_below = 0usize;
    for level in (0..depth).rev() {
        let kind = *g.pick(&[BlockKind::Transaction, BlockKind::Transaction, BlockKind::Union, BlockKind::Lookahead]);
        let ending = match g.weighted(&[3, 2]) {
            0 => Ending::Ok,
            _ => Ending::Err,
        };
        // this level's own reads before and after the nested block
        let mut ops = Vec::new();
        for _ in 0..g.range(0, 2) {
            ops.push(gen_flat(g, false, false));
        }
        ops.extend(inner);
        for _ in 0..g.range(0, 2) {
            ops.push(gen_flat(g, false, false));
        }
        if ending == Ending::Err && level >= 7 {
            absorbed_failure_below += 1;
        }
        // failures are absorbed by the enclosing level (propagate = false)
        inner = vec![Op::Block { kind, ops, ending, propagate: false }];
    }
    let mut ops = inner;
    ops.push(gen_flat(g, false, false));
    g.describe(|| json!({"depth": depth, "data_hex": crate::bits::hex(&data), "ops": format!("{:?}", ops)}));
    match check_sequence(&data, SourceKind::Slice, &ops) {
        Err(m) => Verdict::fail(m),
        Ok((key, _, _, _)) => {
            let mut l: Labels = vec!["nesting depth 9..16"];
            if absorbed_failure_below > 0 {
                l.push("a level at depth >= 8 fails and is absorbed one level up");
            }
            Verdict::pass_l(absorbed_failure_below > 0, key ^ depth as u64, l)
        }
    }
}

pub fn run(ctx: &Ctx) -> i32 {
    let mut reports = vec![super::regression_suite(ctx)];
    reports.push(umv_forms_suite());
    reports.push(tape_suite(ctx, "deeply_nested_blocks", ctx.tier.pick(60_000u64, 1_000_000u64), 400, &deep_nesting_case));
    let len = ctx.tier.pick(2usize, 3usize);
    let items = (alphabet().len() * 8 * fixed_sources().len()) as u64;
    reports.push(exhaustive_suite(ctx, "bounded_exhaustive_sequences", items, &move |i, acc| enum_item(len, i, acc)));
    let cases = ctx.tier.pick(1_500_000u64, 25_000_000u64);
    reports.push(tape_suite(ctx, "random_sequences", cases, 700, &random_case));
    if ctx.tier == Tier::Thorough && reports.iter().all(|r| r.failure.is_none()) {
        let seeds: Vec<Vec<u8>> = generate_tapes(ctx.seed ^ 0xC14, 300, 700).iter().map(|t| t.iter().flat_map(|w| [(w >> 24) as u8, (w >> 16) as u8]).collect()).collect();
        reports.push(fuzz_campaign(
            ctx,
            &FuzzPlan { target: "reader_ops", procs: ctx.threads.min(8), runs: 2_000_000, max_len: 1400, timeout_s: 30, seeds },
            &|bytes| fuzz_replay(bytes),
        ));
    }
    let mut extra = Map::new();
    extra.insert("alphabet_size".into(), json!(alphabet().len()));
    extra.insert("fixed_sources".into(), json!(fixed_sources().len()));
    extra.insert("sequence_length_bound".into(), json!(len));
    finish(
        ctx,
        reports,
        Summary {
            rule: "Operation sequences over H263Reader: peek/read for u8,u16,u32,u64,i16,i32,i64 with widths 0..bits+2, signed peek/read, skip, read_u8, read_vlc over random prefix-code tables, read_umv, recognize_start_code(false/true), commit, and nested with_transaction / with_transaction_union / with_lookahead blocks ending in Ok, None or Err, over slice, short-read and growable sources. bounded_exhaustive_sequences enumerates every sequence up to the length bound over a fixed alphabet x 8 start phases x fixed sources (start codes at every bit phase); random_sequences draws sources and sequences (up to 60 ops, nesting 3) from the proptest tape; umv_code_forms enumerates every form of a Table D.3 code (0..22 pairs, five mantissa patterns, both terminators, eight phases); deeply_nested_blocks nests 9..16 blocks with failures absorbed one level up. Oracle: a bit-vector model - values MSB-first, peeks / look-aheads / failed reads / failed or None blocks consume nothing, two's-complement sign extension, over-wide widths and reads past the end are errors without consumption, and after the sequence the reader re-delivers exactly the unconsumed bits; start-code results are judged by a validity predicate (a reported code must be the nearest, at most 8 bits ahead; one within the realignment distance must be reported; in_error finds the nearest or reports end of data). Non-trivial = a rolled-back block, a read straddling the end, or a commit.",
            assumptions: vec![
                "documented preconditions respected: commit only where every enclosing block ends in success; read_vlc / read_umv (position undefined after failure) only inside blocks that roll back on failure; signed widths >= 1".into(),
            ],
            exhaustive: false,
            extra,
        },
    )
}

pub fn replay(suite: &str, case: &Value) -> Option<Verdict> {
    if case["kind"] == "bytes" {
        return Some(fuzz_replay(&crate::bits::unhex(case["hex"].as_str()?)));
    }
    match suite {
        "random_sequences" => Some(random_case(&mut Gen::new(&super::tape_of(case)?))),
        "umv_code_forms" => Some(match umv_forms_suite().failure {
            Some(f) => Verdict::fail(f.msg),
            None => Verdict::pass(true, 0),
        }),
        "deeply_nested_blocks" => Some(deep_nesting_case(&mut Gen::new(&super::tape_of(case)?))),
        "bounded_exhaustive_sequences" => {
            let mut acc = Acc::default();
            enum_item(case["len"].as_u64().unwrap_or(2) as usize, case["item"].as_u64()?, &mut acc);
            Some(match acc.failure {
                Some((_, _, m, _)) => Verdict::fail(m),
                None => Verdict::pass(true, 0),
            })
        }
        _ => None,
    }
}
