//! Shared oracle plumbing for the picture-level properties.

use crate::dec::*;
use crate::model::recon::*;
use crate::syntax::*;
use h263_rs::H263State;

pub struct Compared {
    pub tolerated: u64,
    pub decoded: Planes,
}

/// Check the decoder's most recent picture against the model expectation: signalled size, plane
/// lengths, chroma row length and every sample.
pub fn compare_last(state: &H263State, ex: &Expect) -> Result<Compared, String> {
    let lp = last_picture(state).ok_or("decode returned Ok but get_last_picture() is None")?;
    let (w, h) = (ex.w, ex.h);
    if lp.format_dims != Some((w as u16, h as u16)) {
        return Err(format!("decoded picture reports size {:?}, header signalled {}x{}", lp.format_dims, w, h));
    }
    let cw = (w + 1) / 2;
    let chh = (h + 1) / 2;
    if lp.y_len != w * h {
        return Err(format!("luma plane has {} samples, {}x{} needs {}", lp.y_len, w, h, w * h));
    }
    if lp.c_len != (cw * chh, cw * chh) {
        return Err(format!("chroma planes have {:?} samples, {}x{} needs {} each", lp.c_len, w, h, cw * chh));
    }
    if lp.chroma_samples_per_row != cw {
        return Err(format!("chroma_samples_per_row = {}, expected ceil({}/2) = {}", lp.chroma_samples_per_row, w, cw));
    }
    let tolerated = compare(ex, &lp.planes.y, &lp.planes.cb, &lp.planes.cr)?;
    Ok(Compared {
        tolerated,
        decoded: lp.planes,
    })
}

pub fn mode_label(h: &Header) -> &'static str {
    match (h.mode, h.version) {
        (Mode::Standard, _) => "standard",
        (Mode::Sorenson, 1) => "sorenson v1",
        (Mode::Sorenson, _) => "sorenson v0",
    }
}

pub fn size_label(h: &Header) -> &'static str {
    match h.dims() {
        Some((w, hh)) if w % 16 == 0 && hh % 16 == 0 => "size multiple of 16",
        Some((w, hh)) if w < 16 || hh < 16 => "dimension below 16",
        Some(_) => "size not multiple of 16",
        None => "no size",
    }
}
