//! Shared oracle plumbing for the picture-level properties.

use crate::dec::*;
use crate::model::recon::*;
use crate::syntax::*;
use h263_rs::H263State;

pub struct Compared {
    pub tolerated: u64,
    pub decoded: Planes,
}

/// Check the decoder's most recent picture against the model expectation: signalled size, plane
/// lengths, chroma row length and every sample.
pub fn compare_last(state: &H263State, ex: &Expect) -> Result<Compared, String> {
    let lp = last_picture(state).ok_or("decode returned Ok but get_last_picture() is None")?;
    let (w, h) = (ex.w, ex.h);
    if lp.format_dims != Some((w as u16, h as u16)) {
        return Err(format!("decoded picture reports size {:?}, header signalled {}x{}", lp.format_dims, w, h));
    }
    let cw = (w + 1) / 2;
    let chh = (h + 1) / 2;
    if lp.y_len != w * h {
        return Err(format!("luma plane has {} samples, {}x{} needs {}", lp.y_len, w, h, w * h));
    }
    if lp.c_len != (cw * chh, cw * chh) {
        return Err(format!("chroma planes have {:?} samples, {}x{} needs {} each", lp.c_len, w, h, cw * chh));
    }
    if lp.chroma_samples_per_row != cw {
        return Err(format!("chroma_samples_per_row = {}, expected ceil({}/2) = {}", lp.chroma_samples_per_row, w, cw));
    }
    let tolerated = compare(ex, &lp.planes.y, &lp.planes.cb, &lp.planes.cr)?;
    Ok(Compared {
        tolerated,
        decoded: lp.planes,
    })
}

pub fn mode_label(h: &Header) -> &'static str {
    match (h.mode, h.version) {
        (Mode::Standard, _) => "standard",
        (Mode::Sorenson, 1) => "sorenson v1",
        (Mode::Sorenson, _) => "sorenson v0",
    }
}

pub fn size_label(h: &Header) -> &'static str {
    match h.dims() {
        Some((w, hh)) if w % 16 == 0 && hh % 16 == 0 => "size multiple of 16",
        Some((w, hh)) if w < 16 || hh < 16 => "dimension below 16",
        Some(_) => "size not multiple of 16",
        None => "no size",
    }
}

/// Feed an arbitrary earlier history (valid pictures of any size, rejected pictures of every kind,
/// hostile data, clean-ups) into a decoder before the pictures a check is about. Intra pictures -
/// and everything predicted from them - must decode the same whatever came before. Returns labels;
/// a panic in here is C01's subject and merely ends the pre-history.
pub fn prehistory(g: &mut crate::gen::Gen, st: &mut H263State, mode: Mode, version: u8, cfg: &crate::gen_pic::PicCfg) -> Vec<&'static str> {
    use crate::hist::*;
    let mut labels = Vec::new();
    let n = g.weighted(&[6, 3, 2, 1]);
    if n == 0 {
        return labels;
    }
    labels.push("decoder has an earlier history");
    let mut like: Option<Header> = None;
    for _ in 0..n {
        match g.weighted(&[3, 3, 3, 2, 1]) {
            0 => {
                // a valid intra picture of some small size
                let size = crate::gen_pic::gen_size(g, mode, cfg);
                let p = crate::gen_pic::gen_intra_pic_with(g, cfg, mode, version, size);
                if matches!(decode_bytes(st, &encode_pic(&p)), Outcome::Panic(_)) {
                    return labels;
                }
                like = Some(p.hdr.clone());
            }
            1 => {
                // a valid predicted (or disposable) picture when there is something to predict from
                if let Some(l) = like.clone() {
                    let t = if mode == Mode::Sorenson && g.bool() { PicType::D } else { PicType::P };
                    let p = crate::gen_pic::gen_inter_pic(g, cfg, &l, t, true);
                    if matches!(decode_bytes(st, &encode_pic(&p)), Outcome::Panic(_)) {
                        return labels;
                    }
                }
            }
            2 => {
                let kinds: &[BadKind] = if mode == Mode::Sorenson { &BAD_KINDS_SORENSON } else { &BAD_KINDS_STANDARD };
                let kind = *g.pick(kinds);
                let l = like.clone().unwrap_or_else(|| match mode {
                    Mode::Sorenson => Header::sorenson(version, PicType::I, Size::Custom8(32, 32), 5),
                    Mode::Standard => Header::standard(PicType::I, Size::Sqcif, 5),
                });
                let inter = st.get_last_picture().is_some() && g.bool();
                let tr = g.byte();
                let b = bad_picture(g, cfg, &l, kind, inter, tr);
                if matches!(decode_bytes(st, &b), Outcome::Panic(_)) {
                    return labels;
                }
                labels.push("earlier history contains a rejected picture");
            }
            3 => {
                // a corrupted small picture (bit flips / truncation): accepted or rejected, either is fine
                let size = like.as_ref().map(|l| l.size).unwrap_or_else(|| crate::gen_pic::gen_size(g, mode, cfg));
                let p = crate::gen_pic::gen_intra_pic_with(g, cfg, mode, version, size);
                let mut b = encode_pic(&p);
                if !b.is_empty() {
                    let flips = g.range(1, 4);
                    for _ in 0..flips {
                        let pos = g.below((b.len() * 8) as u32) as usize;
                        b[pos / 8] ^= 0x80 >> (pos % 8);
                    }
                    if g.bool() {
                        let keep = g.below(b.len() as u32 + 1) as usize;
                        b.truncate(keep);
                    }
                }
                if matches!(decode_bytes(st, &b), Outcome::Panic(_)) {
                    return labels;
                }
            }
            _ => {
                let _ = crate::runner::guard(|| st.cleanup_buffers());
            }
        }
    }
    labels
}
