//! C05 - a failed decode changes nothing and can be retried.

use super::c15::drain_bits;
use super::common::*;
use crate::bits::{bytes_to_bits, fnv64};
use crate::dec::*;
use crate::gen::Gen;
use crate::gen_pic::*;
use crate::hist::*;
use crate::io::*;
use crate::runner::*;
use crate::syntax::*;
use h263_rs::parser::H263Reader;
use h263_rs::H263State;
use serde_json::{json, Map, Value};

/// History of 0..=3 valid pictures (I, then P/D/I) of one mode and size.
fn gen_history(g: &mut Gen, cfg: &PicCfg, mode: Mode, version: u8, size: Size, allow_truncation: bool) -> Vec<Pic> {
    let n = g.weighted(&[2, 4, 3, 2]);
    let mut v = Vec::new();
    if n == 0 {
        return v;
    }
    let first = gen_intra_pic_with(g, cfg, mode, version, size);
    let mut like = first.hdr.clone();
    v.push(first);
    for _ in 1..n {
        let k = if mode == Mode::Sorenson { g.weighted(&[1, 5, 3]) } else { g.weighted(&[1, 6]) };
        v.push(match k {
            0 => {
                let i = gen_intra_pic_with(g, cfg, mode, version, size);
                like = i.hdr.clone();
                i
            }
            1 => gen_inter_pic(g, cfg, &like, PicType::P, allow_truncation),
            _ => gen_inter_pic(g, cfg, &like, PicType::D, allow_truncation),
        });
    }
    v
}

fn triple_case(g: &mut Gen, cfg: &PicCfg) -> Verdict {
    let (mode, version) = gen_mode(g, cfg);
    let size = gen_size(g, mode, cfg);
    let like = match mode {
        Mode::Sorenson => Header::sorenson(version, PicType::I, size, 7),
        Mode::Standard => Header::standard(PicType::I, size, 7),
    };
    // a picture that ends early (truncation) can only be the last thing in its reader
    let in_stream = g.chance(1, 2);
    let hist = gen_history(g, cfg, mode, version, size, !in_stream);
    let hist_bytes: Vec<Vec<u8>> = hist.iter().map(encode_pic).collect();
    let have_ref = !hist.is_empty();
    // pictures after the history follow its most recent intra picture (size, and the modes a
    // header that restates nothing inherits)
    let like = match hist.iter().rev().find(|p| p.hdr.ptype == PicType::I) {
        Some(p) => p.hdr.clone(),
        None => like,
    };
    // the failing input
    let kinds: &[BadKind] = if mode == Mode::Sorenson { &BAD_KINDS_SORENSON } else { &BAD_KINDS_STANDARD };
    let use_noref = !have_ref && g.chance(1, 4);
    let (fbytes, flabel, fdepth): (Vec<u8>, &'static str, &'static str) = if use_noref {
        let p = gen_inter_pic(g, cfg, &like, PicType::P, false);
        if p.mbs.iter().all(|m| m.kind.is_intra()) {
            return Verdict::Excluded("all-intra P picture cannot serve as 'no reference' failure");
        }
        (encode_pic(&p), "bad: prediction without reference", "prediction")
    } else {
        let kind = *g.pick(kinds);
        let inter = have_ref && g.bool();
        // the failing picture often carries the temporal reference of the most recent picture
        let tr = match hist.last() {
            Some(p) if g.chance(1, 3) => p.hdr.tr,
            _ => g.byte(),
        };
        (bad_picture(g, cfg, &like, kind, inter, tr), kind.label(), kind.depth())
    };
    // the continuation: one or two valid pictures
    let mut cont: Vec<Pic> = Vec::new();
    if have_ref {
        if mode == Mode::Sorenson && g.chance(1, 3) {
            cont.push(gen_inter_pic(g, cfg, &like, PicType::D, false));
        }
        cont.push(gen_inter_pic(g, cfg, &like, PicType::P, false));
    } else {
        let i = gen_intra_pic_with(g, cfg, mode, version, size);
        let ilike = i.hdr.clone();
        cont.push(i);
        cont.push(gen_inter_pic(g, cfg, &ilike, PicType::P, false));
    }
    let cont_bytes: Vec<Vec<u8>> = cont.iter().map(encode_pic).collect();
    g.describe(|| {
        json!({
            "mode": mode_label(&like), "size": format!("{:?}", size),
            "history": hist.iter().map(|p| format!("{:?}", p.hdr.ptype)).collect::<Vec<_>>(),
            "failing_input": flabel, "failing_hex": crate::bits::hex(&fbytes[..fbytes.len().min(400)]),
            "continuation": cont.iter().map(|p| format!("{:?}", p.hdr.ptype)).collect::<Vec<_>>(),
            "delivery": if in_stream { "history and failing input in one reader" } else { "one reader per picture" },
        })
    });
    let mut labels: Labels = vec![mode_label(&like), flabel];
    labels.push(match fdepth {
        "header" => "fails in header",
        "picture setup" => "fails in picture setup",
        "macroblock header" => "fails in macroblock header",
        "prediction" => "fails in prediction",
        _ => "fails in block data",
    });
    labels.push(if have_ref { "after accepted pictures" } else { "on a fresh decoder" });

    let scal = g.bool();
    let mut a = H263State::new(options_scal(mode, scal));
    let mut b = H263State::new(options_scal(mode, scal));
    // twin B: history only
    for hb in &hist_bytes {
        if !decode_bytes(&mut b, hb).is_ok() {
            return Verdict::fail("valid history picture not decoded (twin)");
        }
    }
    let before;
    if in_stream {
        labels.push("reader mid-stream");
        // history + failing input in ONE reader: the failing call starts at a post-commit,
        // generally unaligned position
        let mut stream: Vec<u8> = hist_bytes.iter().flatten().copied().collect();
        let fstart = stream.len();
        stream.extend_from_slice(&fbytes);
        let mut r = H263Reader::from_source(&stream[..]);
        for (i, _) in hist_bytes.iter().enumerate() {
            let o = decode_call(&mut a, &mut r);
            if !o.is_ok() {
                return Verdict::fail(format!("valid history picture {} not decoded from the stream: {}", i, o.short()));
            }
        }
        before = last_digest(&a);
        // where the reader stands now: end of the last history picture's macroblock data
        let pos = match hist.last() {
            None => 0,
            Some(p) => (fstart - hist_bytes.last().unwrap().len()) * 8 + encode_pic_bits(p).len(),
        };
        let o = decode_call(&mut a, &mut r);
        match o {
            Outcome::Err(_) => {}
            Outcome::Ok => return Verdict::Excluded("failing input was accepted (judged by C04, not here)"),
            Outcome::Panic(p) => return Verdict::fail(format!("failing input ({}) made the decoder panic: {}", flabel, p)),
        }
        let rest = drain_bits(&mut r);
        let want = &bytes_to_bits(&stream)[pos..];
        if rest != want {
            let first = rest.iter().zip(want.iter()).position(|(x, y)| x != y);
            return Verdict::fail(format!(
                "after the failed call ({}) the reader does not re-deliver the bits from its earlier position {}: {} bits remain, {} expected, first difference at {:?}",
                flabel, pos, rest.len(), want.len(), first
            ));
        }
    } else {
        for hb in &hist_bytes {
            if !decode_bytes(&mut a, hb).is_ok() {
                return Verdict::fail("valid history picture not decoded");
            }
        }
        before = last_digest(&a);
        // a quarter of the time the caller has used the reader itself before the decode call (a
        // container's tag bytes read with read_u8 / skipped with skip_bits, nothing committed): the
        // failed call must put the reader back where the *call* found it
        let prefix: Vec<u8> = if g.chance(1, 4) { (0..g.range(1, 4)).map(|_| g.byte() | 1).collect() } else { Vec::new() };
        let mut data = prefix.clone();
        data.extend_from_slice(&fbytes);
        let mut r = H263Reader::from_source(&data[..]);
        if !prefix.is_empty() {
            labels.push("caller consumed bytes from the reader before the failing call");
            let first: Result<u8, _> = r.read_u8();
            if first.ok() != Some(prefix[0]) {
                return Verdict::fail("read_u8 before the decode call did not deliver the first byte");
            }
            if prefix.len() > 1 && r.skip_bits(8 * (prefix.len() as u32 - 1)).is_err() {
                return Verdict::fail("skip_bits before the decode call failed");
            }
        }
        match decode_call(&mut a, &mut r) {
            Outcome::Err(_) => {}
            Outcome::Ok => return Verdict::Excluded("failing input was accepted (judged by C04, not here)"),
            Outcome::Panic(p) => return Verdict::fail(format!("failing input ({}) made the decoder panic: {}", flabel, p)),
        }
        let rest = drain_bits(&mut r);
        let want = bytes_to_bits(&fbytes);
        if rest != want {
            return Verdict::fail(format!(
                "after the failed call ({}{}) the reader does not re-deliver its bits from where the call started: {} bits remain, {} expected",
                flabel,
                if prefix.is_empty() { String::new() } else { format!(", {} bytes consumed by the caller before it", prefix.len()) },
                rest.len(),
                want.len()
            ));
        }
    }
    let after = last_digest(&a);
    if after != before {
        return Verdict::fail(format!(
            "failed call ({}) changed the most recent picture: digest {:016x} before, {:016x} after",
            flabel, before, after
        ));
    }
    if after != last_digest(&b) {
        return Verdict::fail("decoder that saw the failing input differs from its twin before the continuation");
    }
    // continuation on both decoders
    for (i, cb) in cont_bytes.iter().enumerate() {
        let oa = decode_bytes(&mut a, cb);
        let ob = decode_bytes(&mut b, cb);
        let (da, db) = (last_digest(&a), last_digest(&b));
        if oa != ob || da != db {
            return Verdict::fail(format!(
                "continuation picture {} ({:?}) after the failed call ({}): {} / {:016x}, but a decoder that never saw the failing input gives {} / {:016x}",
                i, cont[i].hdr.ptype, flabel, oa.short(), da, ob.short(), db
            ));
        }
        if !ob.is_ok() {
            return Verdict::fail(format!("valid continuation picture not decoded: {}", ob.short()));
        }
    }
    let nontrivial = have_ref || fdepth != "header";
    let mut key = fnv64(&fbytes);
    for hb in &hist_bytes {
        key = key.rotate_left(5) ^ fnv64(hb);
    }
    key ^= in_stream as u64;
    Verdict::pass_l(nontrivial, key, labels)
}

/// All split points of one valid picture across two deliveries.
fn split_case(g: &mut Gen, cfg: &PicCfg) -> Verdict {
    let (mode, version) = gen_mode(g, cfg);
    let size = gen_size(g, mode, cfg);
    let ipic = gen_intra_pic_with(g, cfg, mode, version, size);
    let like = ipic.hdr.clone();
    let inter = g.chance(2, 3);
    // history (own readers), the picture under test X, and a following picture Y
    let xt = if mode == Mode::Sorenson && g.chance(1, 4) { PicType::D } else { PicType::P };
    let (hist, x) = if inter {
        (vec![ipic.clone()], gen_inter_pic(g, cfg, &like, xt, false))
    } else {
        (vec![], ipic.clone())
    };
    let y = gen_inter_pic(g, cfg, &like, PicType::P, false);
    let scal = g.bool();
    let hb: Vec<Vec<u8>> = hist.iter().map(encode_pic).collect();
    let xb = encode_pic(&x);
    let yb = encode_pic(&y);
    g.describe(|| json!({"mode": mode_label(&like), "size": format!("{:?}", size), "picture": describe_pic(&x), "split_points": xb.len() - 1}));
    let prime = || -> Result<H263State, String> {
        let mut s = H263State::new(options_scal(mode, scal));
        for b in &hb {
            let o = decode_bytes(&mut s, b);
            if !o.is_ok() {
                return Err(format!("history picture not decoded: {}", o.short()));
            }
        }
        Ok(s)
    };
    // all at once
    let mut whole = xb.clone();
    whole.extend_from_slice(&yb);
    let mut s0 = match prime() {
        Ok(s) => s,
        Err(e) => return Verdict::fail(e),
    };
    let before = last_digest(&s0);
    let mut r0 = H263Reader::from_source(&whole[..]);
    let o1 = decode_call(&mut s0, &mut r0);
    let d1 = last_digest(&s0);
    let o2 = decode_call(&mut s0, &mut r0);
    let d2 = last_digest(&s0);
    if !o1.is_ok() || !o2.is_ok() {
        return Verdict::fail(format!("valid pictures not decoded all-at-once: {} then {}", o1.short(), o2.short()));
    }
    let mut eof_failures = 0u32;
    let mut prefix_ok = 0u32;
    let mut other = 0u32;
    for s in 1..xb.len() {
        let mut st = match prime() {
            Ok(s) => s,
            Err(e) => return Verdict::fail(e),
        };
        let src = Growable::new();
        src.push(&xb[..s]);
        let mut r = H263Reader::from_source(src.clone());
        match decode_call(&mut st, &mut r) {
            Outcome::Panic(p) => return Verdict::fail(format!("prefix of {} of {} bytes made the decoder panic: {}", s, xb.len(), p)),
            Outcome::Ok => {
                prefix_ok += 1; // end of data between macroblocks legitimately ends a picture
                continue;
            }
            // The data is a strict prefix of a valid picture, so whatever error is reported the call
            // failed only because data is missing (e.g. a first intra picture cut between two
            // macroblocks reports missing reference blocks rather than end of data).
            Outcome::Err(e) => {
                if !e.contains("UnexpectedEof") {
                    other += 1;
                }
            }
        }
        eof_failures += 1;
        if last_digest(&st) != before {
            return Verdict::fail(format!("call on a {}-byte prefix failed for lack of data but changed the most recent picture", s));
        }
        src.push(&xb[s..]);
        src.push(&yb);
        let oa = decode_call(&mut st, &mut r);
        let da = last_digest(&st);
        if !oa.is_ok() || da != d1 {
            return Verdict::fail(format!(
                "picture of {} bytes delivered as {} + {} bytes: the repeated call gave {} / {:016x}, all-at-once decoding gives Ok / {:016x}",
                xb.len(), s, xb.len() - s, oa.short(), da, d1
            ));
        }
        let ob = decode_call(&mut st, &mut r);
        let db = last_digest(&st);
        if !ob.is_ok() || db != d2 {
            return Verdict::fail(format!(
                "after a picture delivered as {} + {} bytes the next picture of the stream gave {} / {:016x}, all-at-once decoding gives Ok / {:016x}",
                s, xb.len() - s, ob.short(), db, d2
            ));
        }
    }
    let mut labels: Labels = vec![mode_label(&like), if inter { "split predicted picture" } else { "split intra picture" }];
    if prefix_ok > 0 {
        labels.push("some prefixes accepted as truncated pictures (not judged)");
    }
    if other > 0 {
        labels.push("some prefixes failed with an error other than end-of-data (judged alike)");
    }
    Verdict::pass_l(eof_failures > 0, fnv64(&whole), labels)
}

/// One picture made very long by MCBPC stuffing (tens of kilobytes up to > 128 KiB) that fails at
/// its very end (invalid INTRADC) or is cut short there: the failed call must still restore the
/// reader to the start of the picture and change nothing, and a retry after the missing data has
/// been appended must succeed.
fn large_failure_case(g: &mut Gen) -> Verdict {
    let (mode, version) = *g.pick(&[(Mode::Sorenson, 0u8), (Mode::Sorenson, 1), (Mode::Standard, 0)]);
    let size = if mode == Mode::Sorenson { Size::Custom8(32, 16) } else { Size::Sqcif };
    let n_stuff = *g.pick(&[2_000usize, 15_000, 16_500, 40_000, 59_000, 66_000, 130_000]);
    let with_history = g.bool();
    let inter = with_history && g.bool();
    let variant = g.below(3); // 0 invalid INTRADC at the end, 1 cut inside the last block, 2 valid (control)
    let scal = g.bool();
    let like = match mode {
        Mode::Sorenson => Header::sorenson(version, PicType::I, size, 6),
        Mode::Standard => Header::standard(PicType::I, size, 6),
    };
    let ipic = {
        let cfg = PicCfg { budget: 200, ..split_cfg() };
        gen_intra_pic_with(g, &cfg, mode, version, size)
    };
    // the long picture
    let mut hdr = like.clone();
    hdr.ptype = if inter { PicType::P } else { PicType::I };
    hdr.tr = g.byte();
    hdr.quant = 6;
    let (mbw, mbh) = hdr.mb_dims().unwrap();
    let total = mbw * mbh;
    let mut w = crate::bits::BitWriter::new();
    encode_header(&hdr, &mut w);
    let mut one = crate::bits::BitWriter::new();
    if inter {
        one.put_bit(false);
    }
    one.put_code("000000001");
    let at = g.below(total as u32) as usize; // stuffing sits in front of this macroblock
    let mut mbs = Vec::new();
    for n in 0..total {
        let mut mb = Mb::new(MbKind::Intra);
        for b in 0..6 {
            mb.blocks[b].dc = 50 + ((n * 6 + b) % 150) as u8;
            if mb.blocks[b].dc == 128 {
                mb.blocks[b].dc = 127;
            }
        }
        mb.blocks[5].events = vec![Event { run: 2, level: 33, force_escape: true, wide: false }];
        mbs.push(mb);
    }
    if variant == 0 {
        mbs[total - 1].blocks[4].dc = 0;
    }
    for (n, mb) in mbs.iter().enumerate() {
        if n == at {
            for _ in 0..n_stuff {
                w.bits.extend_from_slice(&one.bits);
            }
        }
        encode_mb(mb, &hdr, &mut w);
    }
    let full_bits = w.len();
    let full = w.to_bytes();
    let data: Vec<u8> = if variant == 1 { full[..((full_bits - 1) / 8)].to_vec() } else { full.clone() };
    let variant_name = ["invalid INTRADC in the last macroblock", "cut inside the last block", "valid (control)"][variant as usize];
    let carrier = if inter { "P" } else { "I" };
    g.describe(|| json!({"mode": mode_label(&like), "stuffing_codewords": n_stuff, "picture_bytes": data.len(), "carrier": carrier, "variant": variant_name, "after_history": with_history}));
    let mut st = H263State::new(options_scal(mode, scal));
    let mut twin = H263State::new(options_scal(mode, scal));
    let src = Growable::new();
    let mut r = H263Reader::from_source(src.clone());
    let mut pos_bits = 0usize;
    let mut all: Vec<u8> = Vec::new();
    if with_history {
        let ib = encode_pic(&ipic);
        src.push(&ib);
        all.extend_from_slice(&ib);
        if !decode_call(&mut st, &mut r).is_ok() || !decode_bytes(&mut twin, &ib).is_ok() {
            return Verdict::fail("valid history picture not decoded");
        }
        pos_bits = encode_pic_bits(&ipic).len();
    }
    src.push(&data);
    all.extend_from_slice(&data);
    let before = last_digest(&st);
    let o = decode_call(&mut st, &mut r);
    let labels: Labels = vec![mode_label(&like), ["large picture: invalid INTRADC at the end", "large picture: cut inside the last block", "large picture: valid"][variant as usize]];
    let key = fnv64(&data) ^ ((n_stuff as u64) << 20) ^ with_history as u64;
    if variant == 2 {
        return match o {
            Outcome::Ok => Verdict::pass_l(false, key, labels),
            o => Verdict::fail(format!("valid picture with {} stuffing codewords ({} bytes) not decoded: {}", n_stuff, data.len(), o.short())),
        };
    }
    match o {
        Outcome::Err(_) => {}
        o => return Verdict::fail(format!("picture that must fail at its end gave {}", o.short())),
    }
    if last_digest(&st) != before {
        return Verdict::fail("failed call on a large picture changed the most recent picture");
    }
    if variant == 1 {
        // retry after the missing tail (and a following picture) has arrived
        let y = {
            let mut h2 = like.clone();
            h2.ptype = PicType::P;
            h2.tr = 77;
            Pic { hdr: h2, mbs: vec![Mb::not_coded(); total], trailing_zero_bits: 0 }
        };
        src.push(&full[data.len()..]);
        src.push(&encode_pic(&y));
        let o2 = decode_call(&mut st, &mut r);
        let d2 = last_digest(&st);
        let ot = decode_bytes(&mut twin, &full);
        if !o2.is_ok() || !ot.is_ok() || d2 != last_digest(&twin) {
            return Verdict::fail(format!(
                "picture of {} bytes delivered as {} + {} bytes: the repeated call gave {} / {:016x}, all-at-once decoding gives {} / {:016x}",
                full.len(), data.len(), full.len() - data.len(), o2.short(), d2, ot.short(), last_digest(&twin)
            ));
        }
        let o3 = decode_call(&mut st, &mut r);
        let ot3 = decode_bytes(&mut twin, &encode_pic(&y));
        if o3 != ot3 || last_digest(&st) != last_digest(&twin) {
            return Verdict::fail(format!("the picture after a large split picture gave {}, all-at-once decoding gives {}", o3.short(), ot3.short()));
        }
        return Verdict::pass_l(true, key, labels);
    }
    // variant 0: the reader must re-deliver everything from the start of the failed picture
    let rest = drain_bits(&mut r);
    let want = &bytes_to_bits(&all)[pos_bits..];
    if rest != want {
        return Verdict::fail(format!(
            "after a failed call on a {}-byte picture the reader re-delivers {} bits, expected {} (from the picture's first bit at stream bit {})",
            data.len(), rest.len(), want.len(), pos_bits
        ));
    }
    // and a valid picture decodes as on a twin that never saw the failure
    let v = encode_pic(&Pic { hdr: Header { ptype: PicType::I, ..like.clone() }, mbs: ipic.mbs.clone(), trailing_zero_bits: 0 });
    let (oa, ob) = (decode_bytes(&mut st, &v), decode_bytes(&mut twin, &v));
    if oa != ob || last_digest(&st) != last_digest(&twin) {
        return Verdict::fail(format!("valid picture after the failed large picture: {} vs twin {}", oa.short(), ob.short()));
    }
    Verdict::pass_l(true, key, labels)
}

pub fn cfg_for(tier: Tier) -> PicCfg {
    match tier {
        Tier::Quick => PicCfg { max_dim: 64, max_fixed_mbs: 396, budget: 600, extreme_aspect: false, ..PicCfg::quick() },
        Tier::Thorough => PicCfg { max_dim: 128, max_fixed_mbs: 396, budget: 700, extreme_aspect: false, ..PicCfg::thorough() },
    }
}

fn split_cfg() -> PicCfg {
    PicCfg { max_dim: 48, max_fixed_mbs: 0, budget: 300, extreme_aspect: false, allow_standard: true, ..PicCfg::quick() }
}

/// A stream of valid pictures through ONE reader whose source fails transiently now and then
/// (WouldBlock / TimedOut / Other, as non-blocking pipes and sockets do). A decode call that hits
/// such a failure returns an error; it must leave the decoder as it was, and the same call
/// repeated must carry on as if nothing had happened: picture for picture the results of the
/// same stream from a plain slice.
fn transient_case(g: &mut Gen, cfg: &PicCfg) -> Verdict {
    let pics = super::c15::gen_sequence(g, cfg, 4);
    let mode = pics[0].hdr.mode;
    let encoded: Vec<Vec<u8>> = pics.iter().map(encode_pic).collect();
    let stream: Vec<u8> = encoded.iter().flatten().copied().collect();
    let chunk = g.range(1, 9) as usize;
    let schedule: Vec<u8> = {
        // mostly deliveries; a few interruptions; one to three transient failures per cycle
        let n = g.range(3, 60) as usize;
        let mut v: Vec<u8> = (0..n).map(|_| *g.pick(&[0u8, 0, 0, 0, 1, 1, 1, 2])).collect();
        for _ in 0..g.range(1, 3) {
            let k = g.below(n as u32) as usize;
            v[k] = 3;
        }
        v
    };
    let scal = g.bool();
    g.describe(|| json!({"pictures": pics.iter().map(describe_pic).collect::<Vec<_>>(), "bytes_per_read": chunk, "schedule (0,1 deliver; 2 Interrupted; 3 transient failure)": schedule}));
    // twin: plain slice source
    let mut twin = H263State::new(options_scal(mode, scal));
    let mut rt = H263Reader::from_source(&stream[..]);
    let mut st = H263State::new(options_scal(mode, scal));
    let src = Flaky::new(&stream, chunk, schedule.clone(), true);
    let transients = src.transients.clone();
    let mut rf = H263Reader::from_source(src);
    let mut failures = 0usize;
    for i in 0..encoded.len() {
        let want = decode_call(&mut twin, &mut rt);
        if !want.is_ok() {
            return Verdict::fail(format!("picture {} of a valid stream was not decoded from a slice: {}", i, want.short()));
        }
        let want_digest = last_digest(&twin);
        let mut tries = 0;
        loop {
            let before = last_digest(&st);
            let o = decode_call(&mut st, &mut rf);
            match o {
                Outcome::Ok => break,
                Outcome::Panic(p) => return Verdict::fail(format!("decode call {} panicked over a source with transient failures: {}", i, p)),
                Outcome::Err(e) => {
                    // every failure of the source may surface in one failed call (at once, or -
                    // for a reader that reads ahead - in a later one); a failed call that no
                    // source failure accounts for is the decoder's own
                    if transients.get() <= failures {
                        return Verdict::fail(format!(
                            "decode call for picture {} failed ({}) although its source delivered every byte it was asked for ({} earlier transient failures, all followed by a successful retry)",
                            i, e, failures
                        ));
                    }
                    failures += 1;
                    if last_digest(&st) != before {
                        return Verdict::fail(format!("decode call for picture {} failed on a transient source failure ({}) and changed the most recent picture", i, e));
                    }
                    tries += 1;
                    if tries > 10_000 {
                        return Verdict::fail(format!("picture {}: still failing after 10000 repeated calls although the source delivers data between its failures", i));
                    }
                }
            }
        }
        if last_digest(&st) != want_digest {
            return Verdict::fail(format!(
                "picture {} decoded after {} failed-and-repeated calls differs from the same stream read from a slice ({:016x} vs {:016x})",
                i,
                failures,
                last_digest(&st),
                want_digest
            ));
        }
    }
    let rest = drain_bits(&mut rf);
    let rest_t = drain_bits(&mut rt);
    if rest != rest_t {
        return Verdict::fail(format!("after the stream the reader over the failing source holds {} bits, the slice reader {}", rest.len(), rest_t.len()));
    }
    let mut l: Labels = vec![mode_label(&pics[0].hdr)];
    if failures > 0 {
        l.push("a call failed on a transient source failure and was repeated");
    }
    if failures >= 3 {
        l.push("three or more failed calls in one stream");
    }
    Verdict::pass_l(failures > 0, fnv64(&stream) ^ ((chunk as u64) << 56) ^ fnv64(&schedule), l)
}

pub fn run(ctx: &Ctx) -> i32 {
    let cfg = cfg_for(ctx.tier);
    let mut reports = vec![super::regression_suite(ctx)];
    let cases = ctx.tier.pick(40_000u64, 1_200_000u64);
    reports.push(tape_suite(ctx, "history_failure_continuation", cases, 8192, &move |g| triple_case(g, &cfg)));
    let scases = ctx.tier.pick(600u64, 20_000u64);
    let scfg = split_cfg();
    reports.push(tape_suite(ctx, "all_split_points", scases, 2048, &move |g| split_case(g, &scfg)));
    let lcases = ctx.tier.pick(400u64, 4_000u64);
    reports.push(tape_suite(ctx, "large_failing_pictures", lcases, 512, &large_failure_case));
    let tcases = ctx.tier.pick(6_000u64, 200_000u64);
    let tcfg = PicCfg { max_dim: 64, max_fixed_mbs: 99, budget: 300, extreme_aspect: false, ..cfg_for(ctx.tier) };
    reports.push(tape_suite(ctx, "transient_source_failures", tcases, 4096, &move |g| transient_case(g, &tcfg)));
    finish(
        ctx,
        reports,
        Summary {
            rule: "history_failure_continuation: (history of 0..3 accepted pictures) x (failing input of every kind - no start code, truncated header, PTYPE markers, reserved type/size, invalid MCBPC/MVD/INTRADC/short code, escape level 0, truncation inside a block, prediction without reference - placed after 0..12 good macroblocks, in its own reader or behind the history in one reader) x (valid continuation). Oracle: most-recent-picture digest unchanged; draining the reader re-delivers exactly the source bits from its earlier position; continuation decodes identically on a twin decoder that never saw the failing input. all_split_points: a valid picture cut at EVERY byte boundary through a growable source; a prefix call that fails for lack of data must leave the state unchanged and, repeated after the rest is appended, equal the all-at-once decode, as must the next picture of the stream. transient_source_failures: a stream of valid pictures through one reader whose Read source reports WouldBlock / TimedOut / Other on some calls (and Interrupted on others): a call failing that way leaves the most recent picture unchanged, and the calls repeated give, picture for picture, the results of the same stream read from a slice. Non-trivial = failure past the header or after accepted pictures (first suite), >= 1 end-of-data failure (second); distinct by bytes.",
            assumptions: vec!["prefix calls that succeed (end of data between macroblocks legitimately ends a picture) are classified, not judged; every failing prefix call is judged, whatever error it reports".into()],
            exhaustive: false,
            extra: Map::new(),
        },
    )
}

pub fn replay(suite: &str, case: &Value) -> Option<Verdict> {
    let tape = super::tape_of(case)?;
    let tier = if case["tier"].as_str() == Some("thorough") { Tier::Thorough } else { Tier::Quick };
    match suite {
        "history_failure_continuation" => Some(triple_case(&mut Gen::new(&tape), &cfg_for(tier))),
        "all_split_points" => Some(split_case(&mut Gen::new(&tape), &split_cfg())),
        "large_failing_pictures" => Some(large_failure_case(&mut Gen::new(&tape))),
        "transient_source_failures" => Some(transient_case(&mut Gen::new(&tape), &PicCfg { max_dim: 64, max_fixed_mbs: 99, budget: 300, extreme_aspect: false, ..cfg_for(tier) })),
        _ => None,
    }
}
