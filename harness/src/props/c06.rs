//! C06 - picture headers are parsed field-for-field as H.263 and Sorenson define them.

use crate::bits::{fnv64, BitWriter};
use crate::dec::*;
use crate::gen::Gen;
use crate::gen_pic::*;
use crate::hdr::*;
use crate::runner::*;
use crate::syntax::*;
use h263_rs::parser::{decode_picture, H263Reader};
use h263_rs::verif_hooks as hk;
use h263_rs::{DecoderOption, H263State};
use serde_json::{json, Map, Value};

const SENTINEL: u32 = 0xA5C3_96E1;

// PictureOption bit values (types.rs)
const O_SPLIT: u32 = 0b1;
const O_DOC: u32 = 0b10;
const O_FREEZE: u32 = 0b100;
const O_UMV: u32 = 0b1000;
const O_SAC: u32 = 0b1_0000;
const O_AP: u32 = 0b10_0000;
const O_RPR: u32 = 1 << 13;
const O_RRU: u32 = 1 << 14;
const O_RTYPE: u32 = 1 << 15;
const O_DEBLOCKER: u32 = 1 << 16;

/// Normalised view of a parsed header: every public field rendered comparably.
#[derive(Clone, Debug, PartialEq, Eq)]
pub struct Fields {
    pub version: Option<u8>,
    pub tr: u16,
    pub format: Option<String>,
    pub options: u32,
    pub has_plusptype: bool,
    pub has_opptype: bool,
    pub ptype: String,
    pub mv_range: Option<&'static str>,
    pub slice_submode: Option<(bool, bool)>, // (rectangular, arbitrary order)
    pub layer: Option<(u8, Option<u8>)>,
    pub rpsmf: Option<(bool, bool, bool)>, // (reserved, nack, ack)
    pub trp: Option<u16>,
    pub bcm: bool,
    pub rprp: bool,
    pub quant: u8,
    pub cpm: Option<u8>,
    pub trb: Option<u8>,
    pub dbquant: Option<&'static str>,
    pub extra: Vec<u8>,
}

fn fmt_name(code: u8) -> String {
    match code {
        1 => "SubQcif".into(),
        2 => "QuarterCif".into(),
        3 => "FullCif".into(),
        4 => "FourCif".into(),
        5 => "SixteenCif".into(),
        _ => "Reserved".into(),
    }
}

fn par_name(c: &Cpfmt) -> String {
    match c.par {
        1 => "Square".into(),
        2 => "Par12_11".into(),
        3 => "Par10_11".into(),
        4 => "Par16_11".into(),
        5 => "Par40_33".into(),
        15 => format!("Extended({},{})", c.epar.0, c.epar.1),
        r => format!("Reserved({})", r),
    }
}

fn custom_name(par: &str, w: u32, h: u32) -> String {
    format!("Custom[{} {}x{}]", par, w, h)
}

fn observed_format(f: &hk::SourceFormat) -> String {
    match f {
        hk::SourceFormat::SubQcif => "SubQcif".into(),
        hk::SourceFormat::QuarterCif => "QuarterCif".into(),
        hk::SourceFormat::FullCif => "FullCif".into(),
        hk::SourceFormat::FourCif => "FourCif".into(),
        hk::SourceFormat::SixteenCif => "SixteenCif".into(),
        hk::SourceFormat::Reserved => "Reserved".into(),
        hk::SourceFormat::Extended(c) => {
            let par = match c.pixel_aspect_ratio {
                hk::PixelAspectRatio::Square => "Square".to_string(),
                hk::PixelAspectRatio::Par12_11 => "Par12_11".into(),
                hk::PixelAspectRatio::Par10_11 => "Par10_11".into(),
                hk::PixelAspectRatio::Par16_11 => "Par16_11".into(),
                hk::PixelAspectRatio::Par40_33 => "Par40_33".into(),
                hk::PixelAspectRatio::Reserved(r) => format!("Reserved({})", r),
                hk::PixelAspectRatio::Extended { par_width, par_height } => format!("Extended({},{})", par_width, par_height),
            };
            custom_name(&par, c.picture_width_indication as u32, c.picture_height_indication as u32)
        }
    }
}

pub fn observe(p: &hk::Picture) -> Fields {
    Fields {
        version: p.version,
        tr: p.temporal_reference,
        format: p.format.as_ref().map(observed_format),
        options: p.options.bits(),
        has_plusptype: p.has_plusptype,
        has_opptype: p.has_opptype,
        ptype: picture_type_name(&p.picture_type),
        mv_range: p.motion_vector_range.as_ref().map(|m| match m {
            hk::MotionVectorRange::Extended => "Extended",
            hk::MotionVectorRange::Unlimited => "Unlimited",
        }),
        slice_submode: p
            .slice_submode
            .as_ref()
            .map(|s| (s.contains(hk::SliceSubmode::RECTANGULAR_SLICES), s.contains(hk::SliceSubmode::ARBITRARY_ORDER))),
        layer: p.scalability_layer.as_ref().map(|l| (l.enhancement, l.reference)),
        rpsmf: p.reference_picture_selection_mode.as_ref().map(|m| {
            (
                m.contains(hk::ReferencePictureSelectionMode::RESERVED),
                m.contains(hk::ReferencePictureSelectionMode::REQUEST_NEGATIVE_ACKNOWLEDGEMENT),
                m.contains(hk::ReferencePictureSelectionMode::REQUEST_ACKNOWLEDGEMENT),
            )
        }),
        trp: p.prediction_reference,
        bcm: p.backchannel_message.is_some(),
        rprp: p.reference_picture_resampling.is_some(),
        quant: p.quantizer,
        cpm: p.multiplex_bitstream,
        trb: p.pb_reference,
        dbquant: p.pb_quantizer.as_ref().map(|q| match q {
            hk::BPictureQuantizer::Five => "Five",
            hk::BPictureQuantizer::Six => "Six",
            hk::BPictureQuantizer::Seven => "Seven",
            hk::BPictureQuantizer::Eight => "Eight",
        }),
        extra: p.extra.clone(),
    }
}

pub enum Expected {
    Fields(Fields),
    /// a fixed marker / forbidden value is wrong: must be an error
    Reject(&'static str),
    /// group-of-blocks number != 0 in standard mode: Ok(None)
    NotAPicture,
    /// the tree answers UnimplementedDecoding by design, or the expectation cannot be stated
    Excluded(&'static str),
}

/// Expected parse of a standard header per clause 5.1.
pub fn expect_std(h: &StdHeader, scalability: bool, prev: &Inherited) -> Expected {
    if h.gn != 0 {
        return Expected::NotAPicture;
    }
    if h.ptype_marker != (true, false) {
        return Expected::Reject("PTYPE bits 1-2 must be 1,0");
    }
    let mut options = 0u32;
    if h.split {
        options |= O_SPLIT;
    }
    if h.doc {
        options |= O_DOC;
    }
    if h.freeze {
        options |= O_FREEZE;
    }
    let dbq = ["Five", "Six", "Seven", "Eight"][(h.dbquant & 3) as usize];
    if h.quant == 0 {
        // PQUANT 0 is outside the quantizer's legal range 1..=31: whether such a header is reported
        // or rejected is not fixed by the property
        return Expected::Excluded("PQUANT 0 (outside the legal range 1..=31)");
    }
    match &h.kind {
        Kind::Baseline(b) => {
            if b.fmt == 0 {
                return Expected::Reject("source format 000 is forbidden");
            }
            if scalability {
                return Expected::Excluded("layer number without PLUSPTYPE");
            }
            if b.umv {
                options |= O_UMV;
            }
            if b.sac {
                options |= O_SAC;
            }
            if b.ap {
                options |= O_AP;
            }
            Expected::Fields(Fields {
                version: None,
                tr: h.tr as u16,
                format: Some(fmt_name(b.fmt)),
                options,
                has_plusptype: false,
                has_opptype: false,
                ptype: if b.pb { "PbFrame".into() } else if b.inter { "PFrame".into() } else { "IFrame".into() },
                mv_range: None,
                slice_submode: None,
                layer: None,
                rpsmf: None,
                trp: None,
                bcm: false,
                rprp: false,
                quant: h.quant,
                cpm: b.cpm,
                trb: if b.pb { Some(h.trb & 7) } else { None },
                dbquant: if b.pb { Some(dbq) } else { None },
                extra: h.pei.clone(),
            })
        }
        Kind::Plus(p) => {
            if p.ufep > 1 {
                return Expected::Reject("UFEP values other than 000 and 001 are reserved");
            }
            let has_opp = p.ufep == 1;
            if has_opp && p.opp.marker != 0b1000 {
                return Expected::Reject("OPPTYPE bits 15-18 must be 1000");
            }
            if p.mpp_marker != 0b001 {
                return Expected::Reject("MPPTYPE bits 7-9 must be 001");
            }
            if p.rpr {
                return Expected::Excluded("reference picture resampling (unimplemented by design)");
            }
            let custom = has_opp && p.opp.fmt == 6;
            if custom {
                if p.cpfmt.par == 0 {
                    return Expected::Reject("PAR 0000 is forbidden");
                }
                if !p.cpfmt.marker {
                    return Expected::Reject("CPFMT bit 14 must be 1");
                }
                if p.cpfmt.par == 15 && (p.cpfmt.epar.0 == 0 || p.cpfmt.epar.1 == 0) {
                    return Expected::Reject("EPAR width/height 0 is forbidden");
                }
                if p.cpfmt.phi == 0 || p.cpfmt.phi > 288 {
                    return Expected::Excluded("PHI outside its legal range 1..=288");
                }
            }
            if has_opp && p.opp.umv && p.uui == Uui::Invalid {
                return Expected::Reject("UUI must be 1 or 01");
            }
            let modes = h.mode_bits_in_force(prev);
            let rps_in_force = (modes >> 3) & 1 == 1;
            if rps_in_force {
                match p.bci {
                    Bci::Invalid => return Expected::Reject("BCI must be 1 or 01"),
                    Bci::Present => return Expected::Excluded("back-channel message (unimplemented by design)"),
                    Bci::Absent => {}
                }
            }
            // OPPTYPE mode bits map onto PictureOption bits 3..=12 in transmission order
            for i in 0..10 {
                if (modes >> (9 - i)) & 1 == 1 {
                    options |= 1 << (3 + i);
                }
            }
            if p.rpr {
                options |= O_RPR;
            }
            if p.rru {
                options |= O_RRU;
            }
            if p.rtype {
                options |= O_RTYPE;
            }
            let format = if has_opp {
                Some(if custom {
                    custom_name(&par_name(&p.cpfmt), (p.cpfmt.pwi as u32 + 1) * 4, p.cpfmt.phi as u32 * 4)
                } else {
                    fmt_name(p.opp.fmt)
                })
            } else {
                None
            };
            let clock = has_opp && p.opp.custom_pcf;
            let pb = p.ptype_code == 2;
            Expected::Fields(Fields {
                version: None,
                tr: if clock { ((p.etr as u16 & 3) << 8) | h.tr as u16 } else { h.tr as u16 },
                format,
                options,
                has_plusptype: true,
                has_opptype: has_opp,
                ptype: match p.ptype_code {
                    0 => "IFrame".into(),
                    1 => "PFrame".into(),
                    2 => "ImprovedPbFrame".into(),
                    3 => "BFrame".into(),
                    4 => "EiFrame".into(),
                    5 => "EpFrame".into(),
                    r => format!("Reserved({})", r),
                },
                mv_range: if has_opp && p.opp.umv { Some(if p.uui == Uui::Limited { "Extended" } else { "Unlimited" }) } else { None },
                slice_submode: if has_opp && p.opp.ss { Some((p.sss & 2 != 0, p.sss & 1 != 0)) } else { None },
                layer: if scalability { Some((p.elnum & 15, if has_opp { Some(p.rlnum & 15) } else { None })) } else { None },
                rpsmf: if has_opp && p.opp.rps { Some((p.rpsmf & 4 == 0, p.rpsmf & 2 != 0, p.rpsmf & 1 != 0)) } else { None },
                trp: if rps_in_force { p.trp } else { None },
                bcm: false,
                rprp: false,
                quant: h.quant,
                cpm: p.cpm,
                trb: if pb { Some(if clock { h.trb & 31 } else { h.trb & 7 }) } else { None },
                dbquant: if pb { Some(dbq) } else { None },
                extra: h.pei.clone(),
            })
        }
    }
}

pub struct Parsed {
    pub picture: Option<hk::Picture>,
    pub class: &'static str,
}

/// Parse `bits` + sentinel with the code under test and judge against `exp`.
pub fn judge(bits: &BitWriter, opts: DecoderOption, prev: Option<&hk::Picture>, exp: &Expected, what: &dyn Fn() -> String) -> Result<Parsed, String> {
    judge_with(bits, &mut |r| decode_picture(r, opts, prev), exp, what)
}

/// As `judge`, with the parsing entry point given by the caller (the free function, or the
/// decoder state's `parse_picture`).
pub fn judge_with(
    bits: &BitWriter,
    parse: &mut dyn FnMut(&mut H263Reader<&[u8]>) -> h263_rs::Result<Option<hk::Picture>>,
    exp: &Expected,
    what: &dyn Fn() -> String,
) -> Result<Parsed, String> {
    let mut w = bits.clone();
    let hdr_len = w.len();
    w.put(SENTINEL as u64, 32);
    let bytes = w.to_bytes();
    let mut r = H263Reader::from_source(&bytes[..]);
    let res = guard(|| parse(&mut r)).map_err(|p| format!("{}: decode_picture panicked: {}", what(), p))?;
    match exp {
        Expected::Excluded(_) => Ok(Parsed { picture: None, class: "excluded" }),
        Expected::Fields(f) => {
            let pic = match res {
                Ok(Some(p)) => p,
                Ok(None) => return Err(format!("{}: valid picture header parsed as 'not a picture'", what())),
                Err(e) => return Err(format!("{}: valid picture header rejected: {:?}", what(), e)),
            };
            let got = observe(&pic);
            if &got != f {
                return Err(format!("{}: parsed fields differ from the encoded ones\n   parsed:  {:?}\n   encoded: {:?}", what(), got, f));
            }
            // exact consumption: the sentinel must be what the reader delivers next
            match r.read_bits::<u32>(32) {
                Ok(v) if v == SENTINEL => {}
                Ok(v) => {
                    return Err(format!(
                        "{}: header of {} bits not consumed exactly: the next 32 bits read {:08x}, expected the sentinel {:08x}",
                        what(),
                        hdr_len,
                        v,
                        SENTINEL
                    ))
                }
                Err(e) => return Err(format!("{}: header over-consumed ({:?})", what(), e)),
            }
            // the same header with nothing after it (the data ends with the header, padded with
            // zero bits to the byte boundary): a complete header needs no bit beyond its own
            let alone = bits.to_bytes();
            let mut r2 = H263Reader::from_source(&alone[..]);
            match guard(|| parse(&mut r2)).map_err(|p| format!("{}: decode_picture panicked on the header alone: {}", what(), p))? {
                Ok(Some(p2)) => {
                    let got2 = observe(&p2);
                    if &got2 != f {
                        return Err(format!("{}: the header parses differently when the data ends with it\n   parsed:  {:?}\n   encoded: {:?}", what(), got2, f));
                    }
                }
                Ok(None) => return Err(format!("{}: valid header, alone in its source, parsed as 'not a picture'", what())),
                Err(e) => return Err(format!("{}: complete header of {} bits rejected when nothing follows it in the source: {:?}", what(), hdr_len, e)),
            }
            Ok(Parsed { picture: Some(pic), class: "accepted, all fields equal" })
        }
        Expected::Reject(why) => match res {
            Err(_) => {
                // nothing may be consumed by a failed parse
                let first: u32 = r.read_bits(32).map_err(|e| format!("{}: {:?}", what(), e))?;
                let want = u32::from_be_bytes([bytes[0], bytes[1], bytes[2], bytes[3]]);
                if first != want {
                    return Err(format!("{}: rejected header left the reader displaced", what()));
                }
                Ok(Parsed { picture: None, class: "rejected (wrong marker / forbidden value)" })
            }
            Ok(_) => Err(format!("{}: header must be rejected ({}) but was accepted", what(), why)),
        },
        Expected::NotAPicture => match res {
            Ok(None) => Ok(Parsed { picture: None, class: "GOB number != 0: not a picture" }),
            Ok(Some(_)) => Err(format!("{}: a GOB header (GN != 0) was parsed as a picture", what())),
            Err(e) => Err(format!("{}: a GOB header (GN != 0) gave an error instead of 'not a picture': {:?}", what(), e)),
        },
    }
}

fn std_bits(h: &StdHeader, scal: bool, prev: &Inherited) -> BitWriter {
    let mut w = BitWriter::new();
    h.write(scal, prev, &mut w);
    w
}

/// Check one standard header, optionally after a previous header (which is parsed first by the
/// code under test to obtain the `previous_picture` argument).
pub fn check_std(h: &StdHeader, scal: bool, prev_h: Option<&StdHeader>) -> Result<&'static str, String> {
    match prev_h {
        None => check_chain(std::slice::from_ref(h), scal),
        Some(p) => check_chain(&[p.clone(), h.clone()], scal),
    }
}

/// Parse a chain of standard headers, each with the *parsed* predecessor as `previous_picture`
/// (as the decoder does). All but the last must be valid; the class of the last is returned.
/// OPPTYPE modes stay in force across any number of headers that do not retransmit them.
pub fn check_chain(chain: &[StdHeader], scal: bool) -> Result<&'static str, String> {
    let opts = options(Mode::Standard, scal);
    let mut prev_pic: Option<hk::Picture> = None;
    let mut inh = Inherited::default();
    let mut class = "excluded";
    for (i, h) in chain.iter().enumerate() {
        let last = i + 1 == chain.len();
        let bits = std_bits(h, scal, &inh);
        let exp = expect_std(h, scal, &inh);
        if !last && !matches!(exp, Expected::Fields(_)) {
            panic!("HARNESS: every header of a chain but the last must be valid: {:?}", h);
        }
        let parsed = judge(&bits, opts, prev_pic.as_ref(), &exp, &|| {
            format!("standard header {} of a chain of {} ({:?}; scalability {}; modes in force before it {:?})", i + 1, chain.len(), h, scal, inh.mode_bits)
        })?;
        class = parsed.class;
        if let Some(p) = parsed.picture {
            prev_pic = Some(p);
        }
        inh.mode_bits = Some(h.mode_bits_in_force(&inh));
    }
    Ok(class)
}

// ---------------------------------------------------------------------------------------------
// Sorenson

#[derive(Clone, Debug)]
pub struct SorHeader {
    pub version: u8,
    pub tr: u8,
    pub size_code: u8,
    pub w: u16,
    pub h: u16,
    pub ptype: u8,
    pub deblock: bool,
    pub quant: u8,
    pub pei: Vec<u8>,
}

impl SorHeader {
    pub fn write(&self, w: &mut BitWriter) {
        w.put(1, 17);
        w.put(self.version as u64, 5);
        w.put(self.tr as u64, 8);
        w.put(self.size_code as u64, 3);
        match self.size_code {
            0 => {
                w.put(self.w as u64, 8);
                w.put(self.h as u64, 8);
            }
            1 => {
                w.put(self.w as u64, 16);
                w.put(self.h as u64, 16);
            }
            _ => {}
        }
        w.put(self.ptype as u64, 2);
        w.put_bit(self.deblock);
        w.put(self.quant as u64, 5);
        for b in &self.pei {
            w.put_bit(true);
            w.put(*b as u64, 8);
        }
        w.put_bit(false);
    }
    pub fn expect(&self) -> Fields {
        let format = match self.size_code {
            0 => custom_name("Square", (self.w & 255) as u32, (self.h & 255) as u32),
            1 => custom_name("Square", self.w as u32, self.h as u32),
            2 => "FullCif".into(),
            3 => "QuarterCif".into(),
            4 => "SubQcif".into(),
            5 => custom_name("Square", 320, 240),
            6 => custom_name("Square", 160, 120),
            _ => "Reserved".into(),
        };
        Fields {
            version: Some(self.version),
            tr: self.tr as u16,
            format: Some(format),
            options: if self.deblock { O_DEBLOCKER } else { 0 },
            has_plusptype: false,
            has_opptype: false,
            ptype: match self.ptype {
                0 => "IFrame".into(),
                1 => "PFrame".into(),
                2 => "DisposablePFrame".into(),
                r => format!("Reserved({})", r),
            },
            mv_range: Some("Unlimited"),
            slice_submode: None,
            layer: None,
            rpsmf: None,
            trp: None,
            bcm: false,
            rprp: false,
            quant: self.quant,
            cpm: None,
            trb: None,
            dbquant: None,
            extra: self.pei.clone(),
        }
    }
}

pub fn check_sor(h: &SorHeader, scal: bool) -> Result<&'static str, String> {
    let mut w = BitWriter::new();
    h.write(&mut w);
    let exp = if h.quant == 0 { Expected::Excluded("PQUANT 0 (outside the legal range 1..=31)") } else { Expected::Fields(h.expect()) };
    let parsed = judge(&w, options(Mode::Sorenson, scal), None, &exp, &|| format!("Sorenson header {:?}", h))?;
    Ok(parsed.class)
}

fn base_sor() -> SorHeader {
    SorHeader {
        version: 0,
        tr: 7,
        size_code: 0,
        w: 64,
        h: 48,
        ptype: 0,
        deblock: false,
        quant: 9,
        pei: vec![],
    }
}

// ---------------------------------------------------------------------------------------------
// Exhaustive single-field sweeps

fn acc_result(acc: &mut Acc, r: Result<&'static str, String>, case: impl FnOnce() -> Value) -> bool {
    match r {
        Ok(class) => {
            acc.count(class != "excluded");
            acc.label(class);
            true
        }
        Err(m) => {
            acc.fail(case(), m);
            false
        }
    }
}

fn sweep_sorenson_custom8(i: u64, acc: &mut Acc) {
    // item = width 0..=255; inner = height 0..=255
    for hh in 0..=255u16 {
        let mut s = base_sor();
        s.w = i as u16;
        s.h = hh;
        s.tr = (i as u8).wrapping_mul(31).wrapping_add(hh as u8);
        s.quant = ((i + hh as u64) % 32) as u8;
        if !acc_result(acc, check_sor(&s, false), || json!({"kind":"params","sweep":"sor8","w":i,"h":hh})) {
            return;
        }
    }
    if i == 33 {
        acc.sample(|| json!({"sorenson": "size code 0", "w": i, "h": "0..=255"}));
    }
}

fn sweep_sorenson_misc(acc: &mut Acc) {
    for version in 0..32u8 {
        for ptype in 0..4u8 {
            for deblock in [false, true] {
                for code in 0..8u8 {
                    let mut s = base_sor();
                    s.version = version;
                    s.ptype = ptype;
                    s.deblock = deblock;
                    s.size_code = code;
                    s.w = 0x1234 ^ (version as u16) << 4;
                    s.h = 0xFEDC ^ ptype as u16;
                    if !acc_result(acc, check_sor(&s, version % 2 == 1), || json!({"kind":"params","sweep":"sor_misc","version":version,"ptype":ptype,"deblock":deblock,"code":code})) {
                        return;
                    }
                }
            }
        }
    }
    for tr in 0..=255u8 {
        for q in 0..32u8 {
            let mut s = base_sor();
            s.tr = tr;
            s.quant = q;
            s.pei = (0..(tr % 4)).map(|k| tr.wrapping_mul(3).wrapping_add(k)).collect();
            if !acc_result(acc, check_sor(&s, false), || json!({"kind":"params","sweep":"sor_tr_q","tr":tr,"q":q})) {
                return;
            }
        }
    }
    // 16-bit custom sizes: boundary values and a lattice
    let vals: [u16; 14] = [0, 1, 2, 15, 16, 17, 255, 256, 257, 1000, 0x7FFF, 0x8000, 0xFFFE, 0xFFFF];
    for &a in &vals {
        for &b in &vals {
            let mut s = base_sor();
            s.size_code = 1;
            s.w = a;
            s.h = b;
            if !acc_result(acc, check_sor(&s, false), || json!({"kind":"params","sweep":"sor16","w":a,"h":b})) {
                return;
            }
        }
    }
    acc.sample(|| json!({"sorenson": "version x type x deblock x size code; TR x PQUANT x PEI; 16-bit sizes"}));
}

fn prev_variants() -> Vec<Option<StdHeader>> {
    let mut p1 = base_plus();
    p1.opp = Opp::from_mode_bits(3, false, 0b0010_0100_01); // some modes on (no UMV/SS/RPS followers needed here)
    let mut p2 = base_plus();
    p2.opp = Opp::from_mode_bits(2, false, 0b0001_0010_10 | 0b0000_0010_00); // incl. RPS in force
    vec![None, Some(base_header(Kind::Plus(p1))), Some(base_header(Kind::Plus(p2)))]
}

fn sweep_baseline(acc: &mut Acc) {
    // all 32 patterns of PTYPE bits 9-13 x source format 0..=6 x split/doc/freeze x CPM
    for low in 0..32u8 {
        for fmt in 0..=6u8 {
            for sdf in 0..8u8 {
                for cpm in [None, Some(0u8), Some(3)] {
                    let b = Baseline {
                        fmt,
                        inter: low & 16 != 0,
                        umv: low & 8 != 0,
                        sac: low & 4 != 0,
                        ap: low & 2 != 0,
                        pb: low & 1 != 0,
                        cpm,
                    };
                    let mut h = base_header(Kind::Baseline(b));
                    h.split = sdf & 4 != 0;
                    h.doc = sdf & 2 != 0;
                    h.freeze = sdf & 1 != 0;
                    h.tr = low.wrapping_mul(8) ^ fmt;
                    h.quant = (low + fmt + sdf) % 32;
                    h.trb = (low ^ sdf) & 7;
                    h.dbquant = sdf & 3;
                    for prev in prev_variants().iter().take(2) {
                        if !acc_result(acc, check_std(&h, false, prev.as_ref()), || json!({"kind":"params","sweep":"baseline","low":low,"fmt":fmt,"sdf":sdf,"cpm":cpm,"prev":prev.is_some()})) {
                            return;
                        }
                    }
                }
            }
        }
    }
    // PTYPE marker bits, GOB numbers, TR, PQUANT, PEI chains
    for m in 0..4u8 {
        let mut h = base_header(Kind::Baseline(base_baseline()));
        h.ptype_marker = (m & 2 != 0, m & 1 != 0);
        if !acc_result(acc, check_std(&h, false, None), || json!({"kind":"params","sweep":"ptype_marker","m":m})) {
            return;
        }
        let mut h = base_header(Kind::Plus(base_plus()));
        h.ptype_marker = (m & 2 != 0, m & 1 != 0);
        if !acc_result(acc, check_std(&h, false, None), || json!({"kind":"params","sweep":"ptype_marker_plus","m":m})) {
            return;
        }
    }
    for gn in 0..32u8 {
        let mut h = base_header(Kind::Baseline(base_baseline()));
        h.gn = gn;
        if !acc_result(acc, check_std(&h, false, None), || json!({"kind":"params","sweep":"gn","gn":gn})) {
            return;
        }
    }
    for tr in 0..=255u8 {
        for q in 0..32u8 {
            let mut h = base_header(Kind::Baseline(base_baseline()));
            h.tr = tr;
            h.quant = q;
            h.pei = (0..(q % 4)).map(|k| tr ^ k).collect();
            if !acc_result(acc, check_std(&h, false, None), || json!({"kind":"params","sweep":"tr_q","tr":tr,"q":q})) {
                return;
            }
        }
    }
    acc.sample(|| json!({"standard baseline": "32 PTYPE low-bit patterns x source format 0..6 x split/doc/freeze x CPM x previous header; marker bits; GN 0..31; TR x PQUANT x PEI"}));
}

/// item = OPPTYPE mode-bit pattern (0..1024); inner = source format 0..=7 x custom clock x UFEP x previous header
fn sweep_opptype(i: u64, acc: &mut Acc) {
    for fmt in 0..8u8 {
        for pcf in [false, true] {
            for scal in [false, true] {
                let mut p = base_plus();
                p.opp = Opp::from_mode_bits(fmt, pcf, i as u32);
                p.uui = if i % 2 == 0 { Uui::Limited } else { Uui::Unlimited };
                p.sss = (i % 4) as u8;
                p.rpsmf = (i % 8) as u8;
                p.trp = if i % 3 == 0 { None } else { Some((i * 7 % 1024) as u16) };
                p.elnum = (i % 16) as u8;
                p.rlnum = ((i / 16) % 16) as u8;
                p.etr = (i % 4) as u8;
                p.cpcfc = (i % 2 == 1, (i % 128) as u8);
                p.ptype_code = (i % 6) as u8;
                p.rtype = i % 2 == 0;
                let mut h = base_header(Kind::Plus(p));
                h.tr = (i % 256) as u8;
                h.trb = (i % 32) as u8;
                h.dbquant = (i % 4) as u8;
                if !acc_result(acc, check_std(&h, scal, None), || json!({"kind":"params","sweep":"opptype","bits":i,"fmt":fmt,"pcf":pcf,"scal":scal})) {
                    return;
                }
            }
        }
    }
    // inheritance: a UFEP = 0 header after a header carrying these mode bits
    let mut prev = base_plus();
    prev.opp = Opp::from_mode_bits(2 + (i % 4) as u8, false, i as u32);
    prev.trp = Some(5);
    let prev_h = base_header(Kind::Plus(prev));
    if matches!(expect_std(&prev_h, false, &Inherited::default()), Expected::Fields(_)) {
        for code in 0..6u8 {
            let mut p = base_plus();
            p.ufep = 0;
            p.ptype_code = code;
            p.rru = i % 2 == 1;
            p.trp = if i % 5 == 0 { None } else { Some((i % 1024) as u16) };
            let mut h = base_header(Kind::Plus(p));
            h.tr = (i % 251) as u8;
            h.trb = (i % 8) as u8;
            if !acc_result(acc, check_std(&h, false, Some(&prev_h)), || json!({"kind":"params","sweep":"inherit","bits":i,"code":code})) {
                return;
            }
            // three and four levels: the modes must survive any number of non-retransmitting headers
            let mut h2 = h.clone();
            h2.tr = h.tr.wrapping_add(1);
            h2.quant = (h.quant + 7) % 32;
            if matches!(expect_std(&h, false, &Inherited { mode_bits: Some(i as u32) }), Expected::Fields(_)) {
                if !acc_result(acc, check_chain(&[prev_h.clone(), h.clone(), h2.clone()], false), || json!({"kind":"params","sweep":"inherit3","bits":i,"code":code})) {
                    return;
                }
                if code == 1 && !acc_result(acc, check_chain(&[prev_h.clone(), h.clone(), h2.clone(), h.clone()], false), || json!({"kind":"params","sweep":"inherit4","bits":i,"code":code})) {
                    return;
                }
            }
        }
    }
    if i == 0b1010010010 {
        acc.sample(|| json!({"opptype_mode_bits": format!("{:010b}", i), "formats": "0..=7", "custom_pcf": "both", "scalability": "both", "then": "UFEP=0 header inheriting these bits"}));
    }
}

/// item = PWI 0..512; inner = PHI 0..=288 (PAR rotating through 1..=15)
fn sweep_cpfmt(i: u64, acc: &mut Acc) {
    for phi in 0..=288u16 {
        let mut p = base_plus();
        p.opp = Opp::from_mode_bits(6, false, 0);
        p.cpfmt = Cpfmt {
            par: ((i + phi as u64) % 15 + 1) as u8,
            pwi: i as u16,
            marker: true,
            phi,
            epar: (((i % 255) + 1) as u8, ((phi % 255) + 1) as u8),
        };
        let h = base_header(Kind::Plus(p));
        if !acc_result(acc, check_std(&h, false, None), || json!({"kind":"params","sweep":"cpfmt","pwi":i,"phi":phi})) {
            return;
        }
    }
    if i == 87 {
        acc.sample(|| json!({"cpfmt": "PWI", "pwi": i, "phi": "0..=288 (0 excluded from assertion)", "par": "rotating 1..=15"}));
    }
}

/// item = EPAR width 1..=255 (and 0); inner = EPAR height 0..=255: every extended pixel aspect ratio.
fn sweep_epar(i: u64, acc: &mut Acc) {
    for eh in 0..=255u16 {
        let mut p = base_plus();
        p.opp = Opp::from_mode_bits(6, false, 0);
        p.cpfmt = Cpfmt { par: 15, pwi: (i as u16 * 2) % 512, marker: true, phi: 1 + (eh % 288), epar: (i as u8, eh as u8) };
        let h = base_header(Kind::Plus(p));
        if !acc_result(acc, check_std(&h, false, None), || json!({"kind":"params","sweep":"epar","ew":i,"eh":eh})) {
            return;
        }
    }
    if i == 12 {
        acc.sample(|| json!({"epar_width": i, "epar_height": "0..=255 (0 must be rejected)"}));
    }
}

/// Extra-information chains of every length 0..=600 (the syntax sets no limit), standard and Sorenson.
fn sweep_pei_lengths(acc: &mut Acc) {
    for n in (0..=600usize).chain([1000, 4096, 5000]) {
        let bytes: Vec<u8> = (0..n).map(|k| (k * 37 + n) as u8).collect();
        let mut h = base_header(Kind::Baseline(base_baseline()));
        h.pei = bytes.clone();
        if !acc_result(acc, check_std(&h, false, None), || json!({"kind":"params","sweep":"pei_len","n":n})) {
            return;
        }
        let mut hp = base_header(Kind::Plus(base_plus()));
        hp.pei = bytes.clone();
        if !acc_result(acc, check_std(&hp, false, None), || json!({"kind":"params","sweep":"pei_len_plus","n":n})) {
            return;
        }
        let mut so = base_sor();
        so.pei = bytes;
        if !acc_result(acc, check_sor(&so, false), || json!({"kind":"params","sweep":"pei_len_sor","n":n})) {
            return;
        }
    }
    acc.sample(|| json!({"extra_information_chain_lengths": "0..=600, 1000, 4096, 5000 bytes; baseline, PLUSPTYPE and Sorenson headers"}));
}

fn sweep_plus_misc(acc: &mut Acc) {
    // MPPTYPE: type x RRU x RTYPE x marker
    for code in 0..8u8 {
        for f in 0..8u8 {
            for marker in 0..8u8 {
                let mut p = base_plus();
                p.ptype_code = code;
                p.rpr = f & 4 != 0;
                p.rru = f & 2 != 0;
                p.rtype = f & 1 != 0;
                p.mpp_marker = marker;
                let mut h = base_header(Kind::Plus(p));
                h.trb = code ^ f;
                h.dbquant = f & 3;
                if !acc_result(acc, check_std(&h, false, None), || json!({"kind":"params","sweep":"mpptype","code":code,"flags":f,"marker":marker})) {
                    return;
                }
            }
        }
    }
    // UFEP values, OPPTYPE marker nibble
    for ufep in 0..8u8 {
        let mut p = base_plus();
        p.ufep = ufep;
        let h = base_header(Kind::Plus(p));
        if !acc_result(acc, check_std(&h, false, None), || json!({"kind":"params","sweep":"ufep","ufep":ufep})) {
            return;
        }
    }
    for m in 0..16u8 {
        let mut p = base_plus();
        p.opp.marker = m;
        let h = base_header(Kind::Plus(p));
        if !acc_result(acc, check_std(&h, false, None), || json!({"kind":"params","sweep":"opp_marker","m":m})) {
            return;
        }
    }
    // CPM / PSBI in the PLUSPTYPE position
    for cpm in [None, Some(0u8), Some(1), Some(2), Some(3)] {
        let mut p = base_plus();
        p.cpm = cpm;
        p.opp = Opp::from_mode_bits(6, true, 0);
        let h = base_header(Kind::Plus(p));
        if !acc_result(acc, check_std(&h, false, None), || json!({"kind":"params","sweep":"cpm","cpm":cpm})) {
            return;
        }
    }
    // PAR codes incl. forbidden 0, EPAR incl. zeros, CPFMT marker
    for par in 0..16u8 {
        for (ew, eh) in [(1u8, 1u8), (0, 5), (5, 0), (255, 254), (0, 0)] {
            for marker in [true, false] {
                let mut p = base_plus();
                p.opp = Opp::from_mode_bits(6, false, 0);
                p.cpfmt = Cpfmt { par, pwi: 100, marker, phi: 77, epar: (ew, eh) };
                let h = base_header(Kind::Plus(p));
                if !acc_result(acc, check_std(&h, false, None), || json!({"kind":"params","sweep":"par","par":par,"epar":[ew,eh],"marker":marker})) {
                    return;
                }
            }
        }
    }
    // CPCFC x ETR (x TRB 5 bits with a PB type)
    for c in 0..=255u8 {
        for etr in 0..4u8 {
            let mut p = base_plus();
            p.opp = Opp::from_mode_bits(2, true, 0);
            p.cpcfc = (c & 0x80 != 0, c & 0x7F);
            p.etr = etr;
            p.ptype_code = if c % 3 == 0 { 2 } else { 1 };
            let mut h = base_header(Kind::Plus(p));
            h.tr = c.wrapping_mul(5);
            h.trb = c & 31;
            h.dbquant = etr;
            if !acc_result(acc, check_std(&h, false, None), || json!({"kind":"params","sweep":"cpcfc","c":c,"etr":etr})) {
                return;
            }
        }
    }
    // UUI, SSS, RPSMF, TRP, BCI, ELNUM/RLNUM
    for uui in [Uui::Limited, Uui::Unlimited, Uui::Invalid] {
        let mut p = base_plus();
        p.opp = Opp::from_mode_bits(2, false, 1 << 9);
        p.uui = uui;
        let h = base_header(Kind::Plus(p));
        if !acc_result(acc, check_std(&h, false, None), || json!({"kind":"params","sweep":"uui","uui":format!("{:?}",uui)})) {
            return;
        }
    }
    for sss in 0..4u8 {
        for extra_modes in [0u32, 1 << 9, 1 << 3] {
            let mut p = base_plus();
            p.opp = Opp::from_mode_bits(2, false, (1 << 4) | extra_modes);
            p.sss = sss;
            let h = base_header(Kind::Plus(p));
            if !acc_result(acc, check_std(&h, false, None), || json!({"kind":"params","sweep":"sss","sss":sss,"modes":extra_modes})) {
                return;
            }
        }
    }
    for rpsmf in 0..8u8 {
        for trp in [None, Some(0u16), Some(1), Some(0x155), Some(0x2AA), Some(1023)] {
            for bci in [Bci::Absent, Bci::Present, Bci::Invalid] {
                let mut p = base_plus();
                p.opp = Opp::from_mode_bits(2, false, 1 << 3);
                p.rpsmf = rpsmf;
                p.trp = trp;
                p.bci = bci;
                let h = base_header(Kind::Plus(p));
                if !acc_result(acc, check_std(&h, false, None), || json!({"kind":"params","sweep":"rps","rpsmf":rpsmf,"trp":trp,"bci":format!("{:?}",bci)})) {
                    return;
                }
            }
        }
    }
    for trp in 0..1024u16 {
        let mut p = base_plus();
        p.opp = Opp::from_mode_bits(2, false, 1 << 3);
        p.trp = Some(trp);
        let h = base_header(Kind::Plus(p));
        if !acc_result(acc, check_std(&h, false, None), || json!({"kind":"params","sweep":"trp","trp":trp})) {
            return;
        }
    }
    for el in 0..16u8 {
        for rl in 0..16u8 {
            for ufep in [1u8, 0] {
                let mut p = base_plus();
                p.ufep = ufep;
                p.elnum = el;
                p.rlnum = rl;
                p.ptype_code = 3 + (el % 3);
                let h = base_header(Kind::Plus(p));
                if !acc_result(acc, check_std(&h, true, None), || json!({"kind":"params","sweep":"layers","el":el,"rl":rl,"ufep":ufep})) {
                    return;
                }
            }
        }
    }
    // PB followers: TRB (3 bits) x DBQUANT, PEI chains
    for trb in 0..8u8 {
        for dbq in 0..4u8 {
            for npei in 0..4usize {
                let mut p = base_plus();
                p.ptype_code = 2;
                let mut h = base_header(Kind::Plus(p));
                h.trb = trb;
                h.dbquant = dbq;
                h.pei = (0..npei).map(|k| 0xF0u8.wrapping_add(k as u8 * 17).wrapping_add(trb)).collect();
                if !acc_result(acc, check_std(&h, false, None), || json!({"kind":"params","sweep":"pb","trb":trb,"dbq":dbq,"pei":npei})) {
                    return;
                }
            }
        }
    }
    acc.sample(|| json!({"plusptype": "MPPTYPE type x flags x marker; UFEP 0..7; OPPTYPE marker 0..15; CPM/PSBI; PAR 0..15 x EPAR x CPFMT marker; CPCFC x ETR; UUI; SSS; RPSMF x TRP x BCI; all 1024 TRP; ELNUM x RLNUM; TRB x DBQUANT x PEI"}));
}

// ---------------------------------------------------------------------------------------------
// Random cross products

fn random_header_case(g: &mut Gen) -> Verdict {
    if g.chance(1, 4) {
        let code = g.below(8) as u8;
        let s = SorHeader {
            version: g.below(32) as u8,
            tr: g.byte(),
            size_code: code,
            w: g.word() as u16,
            h: g.word() as u16,
            ptype: g.below(4) as u8,
            deblock: g.bool(),
            quant: g.below(32) as u8,
            pei: if g.chance(1, 3) {
                let n = g.range(1, 3) as usize;
                g.bytes(n)
            } else {
                vec![]
            },
        };
        let scal = g.bool();
        g.describe(|| json!({"sorenson": format!("{:?}", s), "scalability_option": scal}));
        let mut w = BitWriter::new();
        s.write(&mut w);
        return match check_sor(&s, scal) {
            Ok(c) => Verdict::pass_l(true, fnv64(&w.to_bytes()) ^ w.len() as u64, vec!["sorenson", c]),
            Err(m) => Verdict::fail(m),
        };
    }
    let scal = g.chance(1, 3);
    // chain of 0..=3 valid PLUSPTYPE predecessors: the first carries OPPTYPE, later ones mostly not
    let n_prev = g.weighted(&[4, 3, 2, 1]);
    let mut chain: Vec<StdHeader> = Vec::new();
    let mut inh_gen = Inherited::default();
    for k in 0..n_prev {
        let mut ph = gen_std_header(g, true);
        match &mut ph.kind {
            Kind::Plus(p) => {
                if k == 0 {
                    p.ufep = 1;
                } else {
                    p.ufep = if g.chance(1, 4) { 1 } else { 0 };
                }
            }
            _ => {
                let mut p = base_plus();
                p.ufep = if k == 0 { 1 } else { 0 };
                ph.kind = Kind::Plus(p);
            }
        }
        if matches!(expect_std(&ph, scal, &inh_gen), Expected::Fields(_)) {
            inh_gen.mode_bits = Some(ph.mode_bits_in_force(&inh_gen));
            chain.push(ph);
        } else {
            break;
        }
    }
    let mut h = gen_std_header(g, true);
    if scal {
        if let Kind::Baseline(_) = h.kind {
            h.kind = Kind::Plus(base_plus());
        }
    }
    // occasionally break exactly one marker
    let mut broke = false;
    if g.chance(1, 10) {
        broke = true;
        match g.below(5) {
            0 => h.ptype_marker = (g.bool(), true),
            1 => {
                if let Kind::Plus(p) = &mut h.kind {
                    p.mpp_marker = g.below(8) as u8;
                }
            }
            2 => {
                if let Kind::Plus(p) = &mut h.kind {
                    p.opp.marker = g.below(16) as u8;
                }
            }
            3 => {
                if let Kind::Plus(p) = &mut h.kind {
                    p.cpfmt.marker = false;
                }
            }
            _ => {
                if let Kind::Plus(p) = &mut h.kind {
                    p.ufep = g.range(2, 7) as u8;
                }
            }
        }
    }
    g.describe(|| json!({"header": format!("{:?}", h), "scalability_option": scal, "predecessors": chain.iter().map(|p| format!("{:?}", p)).collect::<Vec<_>>()}));
    let inh = inh_gen.clone();
    let key = {
        let mut k = 0u64;
        let mut run = Inherited::default();
        for p in &chain {
            let b = std_bits(p, scal, &run);
            k = k.rotate_left(9) ^ fnv64(&b.to_bytes()) ^ b.len() as u64;
            run.mode_bits = Some(p.mode_bits_in_force(&run));
        }
        let b = std_bits(&h, scal, &inh);
        k.rotate_left(9) ^ fnv64(&b.to_bytes()) ^ ((b.len() as u64) << 40) ^ scal as u64
    };
    let n_chain = chain.len();
    chain.push(h.clone());
    match check_chain(&chain, scal) {
        Ok(c) => {
            let mut l: Labels = vec!["standard", c];
            if let Kind::Plus(p) = &h.kind {
                l.push(if p.ufep == 0 { "UFEP=0" } else { "UFEP=1" });
                if p.ufep == 0 && n_chain > 0 {
                    l.push("inherits modes from earlier header");
                }
                if p.ufep == 0 && n_chain >= 2 {
                    if let Kind::Plus(pp) = &chain[n_chain - 1].kind {
                        if pp.ufep == 0 {
                            l.push("inherits across two or more non-retransmitting headers");
                        }
                    }
                }
            } else {
                l.push("baseline PTYPE");
            }
            if broke {
                l.push("one marker perturbed");
            }
            Verdict::pass_l(c != "excluded", key, l)
        }
        Err(m) => Verdict::fail(m),
    }
}

// ---------------------------------------------------------------------------------------------
// State level: a decoded picture reports the header it was decoded from

fn state_case(g: &mut Gen, cfg: &PicCfg) -> Verdict {
    let which = g.weighted(&[3, 2, 3]);
    if which < 2 {
        // Sorenson / standard baseline pictures through the ordinary generator
        let mode = if which == 0 { Mode::Sorenson } else { Mode::Standard };
        let version = if mode == Mode::Sorenson { g.below(2) as u8 } else { 0 };
        let size = gen_size(g, mode, cfg);
        let ipic = gen_intra_pic_with(g, cfg, mode, version, size);
        let scal = g.bool();
        let mut st = H263State::new(options_scal(mode, scal));
        let pics: Vec<Pic> = {
            let mut v = vec![ipic.clone()];
            if g.bool() {
                let t = if mode == Mode::Sorenson && g.bool() { PicType::D } else { PicType::P };
                v.push(gen_inter_pic(g, cfg, &ipic.hdr, t, true));
            }
            v
        };
        g.describe(|| json!({"pictures": pics.iter().map(describe_pic).collect::<Vec<_>>()}));
        let mut key = 0;
        for p in &pics {
            let bytes = encode_pic(p);
            key = (key as u64).rotate_left(3) ^ fnv64(&bytes);
            match decode_bytes(&mut st, &bytes) {
                Outcome::Ok => {}
                o => return Verdict::fail(format!("valid picture not decoded: {}", o.short())),
            }
            let lp = last_picture(&st).unwrap();
            let (w, h) = p.hdr.dims().unwrap();
            let want_type = match p.hdr.ptype {
                PicType::I => "IFrame",
                PicType::P => "PFrame",
                PicType::D => "DisposablePFrame",
                _ => "?",
            };
            if lp.tr != p.hdr.tr as u16 || lp.ptype != want_type || lp.quant != p.hdr.quant || lp.format_dims != Some((w as u16, h as u16)) {
                return Verdict::fail(format!(
                    "decoded picture reports TR {} type {} PQUANT {} size {:?}; its header carried TR {} type {} PQUANT {} size {}x{}",
                    lp.tr, lp.ptype, lp.quant, lp.format_dims, p.hdr.tr, want_type, p.hdr.quant, w, h
                ));
            }
            if mode == Mode::Standard {
                let umv = lp.options_bits & O_UMV != 0;
                if umv != p.hdr.umv_coded() {
                    return Verdict::fail(format!("decoded picture reports unrestricted-motion-vector mode {}, its header carried {}", umv, p.hdr.umv_coded()));
                }
            }
            if mode == Mode::Sorenson {
                let deb = lp.options_bits & O_DEBLOCKER != 0;
                if deb != p.hdr.deblock {
                    return Verdict::fail(format!("decoded picture reports deblocking flag {}, header carried {}", deb, p.hdr.deblock));
                }
            }
        }
        return Verdict::pass_l(true, key, vec![if mode == Mode::Sorenson { "state: sorenson" } else { "state: standard baseline" }]);
    }
    // PLUSPTYPE: I picture with a custom format, then a P picture that does not restate it (UFEP=0)
    let pwi = g.range(0, 15) as u16;
    let phi = g.range(1, 12) as u16;
    let (w, h) = ((pwi as usize + 1) * 4, phi as usize * 4);
    let mut p = base_plus();
    // an optional mode that leaves the decoding of this harness's pictures alone: Reference
    // Picture Selection with TRPI = 0 (predict from the previous picture) - where the tree accepts
    // the mode at all (see gen_pic::optional_modes_accepted)
    let mode_bits: u32 = if g.chance(1, 2) && optional_modes_accepted().1 { 1 << 3 } else { 0 };
    p.opp = Opp::from_mode_bits(6, false, mode_bits);
    p.rpsmf = 4 + g.below(4) as u8;
    p.trp = None;
    p.bci = Bci::Absent;
    p.cpfmt = Cpfmt { par: g.range(1, 5) as u8, pwi, marker: true, phi, epar: (1, 1) };
    p.rtype = false;
    // a third of the decoders have the scalability option on: every PLUSPTYPE header then carries
    // an enhancement-layer number (and, with OPPTYPE, a reference-layer number)
    let scal = g.chance(1, 3);
    let mut ih = base_header(Kind::Plus(p.clone()));
    ih.tr = g.byte();
    ih.quant = gen_quant(g);
    let mb_hdr_i = Header::standard(PicType::I, Size::Custom16(w as u16, h as u16), ih.quant);
    let total = ((w + 15) / 16) * ((h + 15) / 16);
    let mut wi = BitWriter::new();
    ih.write(scal, &Inherited::default(), &mut wi);
    for _ in 0..total {
        let mb = gen_intra_mb(g, &mb_hdr_i, false, false);
        encode_mb(&mb, &mb_hdr_i, &mut wi);
    }
    // one to three P pictures in a row that do not restate the format (UFEP=0)
    let n_p = 1 + g.weighted(&[3, 3, 2]);
    let mut pictures: Vec<(String, Vec<u8>, u8, u8, &'static str)> = vec![("I".into(), wi.to_bytes(), ih.tr, ih.quant, "IFrame")];
    let mut rejected_between = 0;
    for k in 0..n_p {
        if g.chance(1, 3) {
            // in between: a predicted picture that restates ANOTHER size and needs prediction - it
            // is rejected (its reference has the wrong size) and must leave no trace: the pictures
            // after it still inherit the size of the last *decoded* picture
            let mut pr = p.clone();
            pr.ptype_code = 1;
            let (ow, oh) = (if pwi < 15 { pwi + 1 } else { pwi - 1 }, if phi < 12 { phi + 1 } else { phi - 1 });
            pr.cpfmt = Cpfmt { par: 2, pwi: ow, marker: true, phi: oh, epar: (1, 1) };
            let mut rh = base_header(Kind::Plus(pr));
            rh.tr = g.byte();
            rh.quant = gen_quant(g);
            let (rw, rhh) = ((ow as usize + 1) * 4, oh as usize * 4);
            let mb_hdr_r = Header::standard(PicType::P, Size::Custom16(rw as u16, rhh as u16), rh.quant);
            let mut wr = BitWriter::new();
            rh.write(scal, &Inherited { mode_bits: Some(mode_bits) }, &mut wr);
            let rtotal = ((rw + 15) / 16) * ((rhh + 15) / 16);
            encode_mb(&Mb::new(MbKind::Inter), &mb_hdr_r, &mut wr);
            for _ in 1..rtotal {
                encode_mb(&Mb::not_coded(), &mb_hdr_r, &mut wr);
            }
            pictures.push((format!("(must be rejected) P restating {}x{}", rw, rhh), wr.to_bytes(), 0, 0, "REJECT"));
            rejected_between += 1;
        }
        let mut p2 = p.clone();
        p2.ufep = 0;
        p2.ptype_code = 1;
        let mut ph = base_header(Kind::Plus(p2));
        ph.tr = g.byte();
        ph.quant = gen_quant(g);
        let mb_hdr_p = Header::standard(PicType::P, Size::Custom16(w as u16, h as u16), ph.quant);
        let mut wp = BitWriter::new();
        ph.write(scal, &Inherited { mode_bits: Some(mode_bits) }, &mut wp);
        for _ in 0..total {
            let mb = gen_inter_mb(g, &mb_hdr_p, false);
            encode_mb(&mb, &mb_hdr_p, &mut wp);
        }
        pictures.push((format!("P #{} without restated format", k + 1), wp.to_bytes(), ph.tr, ph.quant, "PFrame"));
    }
    // afterwards the state's own header parser is asked about an arbitrary header with *no*
    // previous picture: whatever the state has decoded so far must not leak into the result
    let probe = gen_std_header(g, true);
    g.describe(|| json!({"plusptype_custom_format": [w, h], "pictures": pictures.iter().map(|p| json!({"what": p.0, "hex": crate::bits::hex(&p.1)})).collect::<Vec<_>>(), "then_parse_picture_without_previous": format!("{:?}", probe)}));
    let mut st = H263State::new(options(Mode::Standard, scal));
    let mut key = 0u64;
    for (name, bytes, tr, q, ty) in pictures.iter() {
        key = key.rotate_left(7) ^ fnv64(bytes);
        if *ty == "REJECT" {
            let before = last_picture(&st).map(|l| (l.tr, l.format_dims, l.y_len));
            match decode_bytes(&mut st, bytes) {
                Outcome::Err(_) => {}
                o => return Verdict::fail(format!("{}: predicted from a {}x{} reference, gave {}", name, w, h, o.short())),
            }
            if last_picture(&st).map(|l| (l.tr, l.format_dims, l.y_len)) != before {
                return Verdict::fail(format!("{}: the rejected picture changed what the decoder reports as its most recent picture", name));
            }
            continue;
        }
        match decode_bytes(&mut st, bytes) {
            Outcome::Ok => {}
            o => return Verdict::fail(format!("valid PLUSPTYPE {} picture ({}x{} custom format) not decoded: {}", name, w, h, o.short())),
        }
        let lp = last_picture(&st).unwrap();
        if lp.tr != *tr as u16 || lp.quant != *q || lp.ptype != *ty || lp.format_dims != Some((w as u16, h as u16)) || lp.y_len != w * h {
            return Verdict::fail(format!(
                "PLUSPTYPE {} picture: decoded picture reports TR {} type {} PQUANT {} size {:?} ({} luma samples); header carried TR {} type {} PQUANT {} size {}x{}",
                name, lp.tr, lp.ptype, lp.quant, lp.format_dims, lp.y_len, tr, ty, q, w, h
            ));
        }
    }
    let exp = expect_std(&probe, scal, &Inherited::default());
    let bits = std_bits(&probe, scal, &Inherited::default());
    key = key.rotate_left(7) ^ fnv64(&bits.to_bytes());
    let what = || format!("H263State::parse_picture(reader, None) after {} decoded pictures, header {:?}", pictures.len(), probe);
    let class = match judge_with(&bits, &mut |r| st.parse_picture(r, None), &exp, &what) {
        Ok(p) => p.class,
        Err(m) => return Verdict::fail(m),
    };
    let mut l: Labels = vec!["state: PLUSPTYPE custom format, then format-less P"];
    if scal {
        l.push("state: decoder with the scalability option (layer numbers in every PLUSPTYPE header)");
    }
    if rejected_between > 0 {
        l.push("state: a rejected picture restating another size before a format-less P");
    }
    if mode_bits != 0 {
        l.push("state: history with an OPPTYPE mode (RPS) in force");
    }
    if n_p >= 2 {
        l.push("state: two or more format-less P pictures in a row");
    }
    if class == "accepted, all fields equal" {
        l.push("state: parse_picture without previous picture, accepted header");
    }
    Verdict::pass_l(true, key, l)
}

pub fn run(ctx: &Ctx) -> i32 {
    let mut reports = vec![super::regression_suite(ctx)];
    reports.push(exhaustive_suite(ctx, "sorenson_custom8_all_sizes", 256, &sweep_sorenson_custom8));
    reports.push(simple_suite("sorenson_fields", true, sweep_sorenson_misc));
    reports.push(simple_suite("baseline_ptype_fields", true, sweep_baseline));
    reports.push(exhaustive_suite(ctx, "opptype_all_mode_patterns", 1024, &sweep_opptype));
    reports.push(exhaustive_suite(ctx, "cpfmt_all_pwi_phi", 512, &sweep_cpfmt));
    reports.push(simple_suite("plusptype_follower_fields", true, sweep_plus_misc));
    reports.push(exhaustive_suite(ctx, "epar_all_pairs", 256, &sweep_epar));
    reports.push(simple_suite("extra_information_chain_lengths", true, sweep_pei_lengths));
    let cases = ctx.tier.pick(1_000_000u64, 40_000_000u64);
    reports.push(tape_suite(ctx, "random_cross_products", cases, 260, &random_header_case));
    let cfg = PicCfg { max_dim: 64, max_fixed_mbs: 48, budget: 400, extreme_aspect: true, ..PicCfg::quick() };
    let scases = ctx.tier.pick(20_000u64, 300_000u64);
    reports.push(tape_suite(ctx, "decoded_picture_reports_header", scases, 4096, &move |g| state_case(g, &cfg)));
    finish(
        ctx,
        reports,
        Summary {
            rule: "Headers are written by the harness from a header AST per clause 5.1 / the Sorenson layout, followed by a 32-bit sentinel, and parsed with parser::decode_picture. Oracle: every public field equals the encoded value, the sentinel is the next thing read (exact consumption), UFEP=0 headers report the OPPTYPE modes in force (chains of up to four headers, each parsed with its parsed predecessor) and no format, GN != 0 gives 'not a picture', every wrong marker / forbidden value is rejected without consuming. Exhaustive single-field sweeps (all 256x256 Sorenson 8-bit sizes, all 32 PTYPE low-bit patterns, all 2^10 OPPTYPE mode patterns x 8 formats, all 512x288 PWI/PHI pairs, all TRP, CPCFC x ETR, ...) plus tape-generated cross products with and without a previous header; decoded_picture_reports_header checks TR/type/PQUANT/deblocking flag/size of get_last_picture() incl. PLUSPTYPE custom formats and a following format-less P picture. Non-trivial = every judged header (accepted-and-compared or rejected); distinct by header bits.",
            assumptions: vec![
                "clause 5.1 field layout as recalled (cross-read against FFmpeg's h263 header parser)".into(),
                "excluded from assertion (counted as class 'excluded'): RPR bit and BCI=1 (UnimplementedDecoding by design), layer numbers without PLUSPTYPE, PHI outside 1..=288, PQUANT 0".into(),
                "ETR is asserted only under a custom clock signalled in the same header".into(),
            ],
            exhaustive: false,
            extra: Map::new(),
        },
    )
}

pub fn replay(suite: &str, case: &Value) -> Option<Verdict> {
    let from_acc = |acc: Acc| match acc.failure {
        Some((_, _, m, _)) => Verdict::fail(m),
        None => Verdict::pass(true, 0),
    };
    match suite {
        "random_cross_products" => Some(random_header_case(&mut Gen::new(&super::tape_of(case)?))),
        "decoded_picture_reports_header" => {
            let cfg = PicCfg { max_dim: 64, max_fixed_mbs: 48, budget: 400, extreme_aspect: true, ..PicCfg::quick() };
            Some(state_case(&mut Gen::new(&super::tape_of(case)?), &cfg))
        }
        "sorenson_custom8_all_sizes" => {
            let mut acc = Acc::default();
            sweep_sorenson_custom8(case["w"].as_u64()?, &mut acc);
            Some(from_acc(acc))
        }
        "opptype_all_mode_patterns" => {
            let mut acc = Acc::default();
            sweep_opptype(case["bits"].as_u64()?, &mut acc);
            Some(from_acc(acc))
        }
        "cpfmt_all_pwi_phi" => {
            let mut acc = Acc::default();
            sweep_cpfmt(case["pwi"].as_u64()?, &mut acc);
            Some(from_acc(acc))
        }
        "epar_all_pairs" => {
            let mut acc = Acc::default();
            sweep_epar(case["ew"].as_u64()?, &mut acc);
            Some(from_acc(acc))
        }
        "extra_information_chain_lengths" => {
            let mut acc = Acc::default();
            sweep_pei_lengths(&mut acc);
            Some(from_acc(acc))
        }
        "sorenson_fields" => {
            let mut acc = Acc::default();
            sweep_sorenson_misc(&mut acc);
            Some(from_acc(acc))
        }
        "baseline_ptype_fields" => {
            let mut acc = Acc::default();
            sweep_baseline(&mut acc);
            Some(from_acc(acc))
        }
        "plusptype_follower_fields" => {
            let mut acc = Acc::default();
            sweep_plus_misc(&mut acc);
            Some(from_acc(acc))
        }
        _ => None,
    }
}
