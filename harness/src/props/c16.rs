//! C16 - deblocking accepts every image size and strength; strength table is Table J.2.

use crate::model::deblock::*;
use crate::runner::*;
use h263_rs_deblock::deblock::{deblock, QUANT_TO_STRENGTH};
use serde_json::{json, Map, Value};

/// Image contents. 0: hash bytes; 1: hash-chosen extremes (0 / 255); 2, 3: one-sample column
/// stripes 255/0 in both phases; 4, 5: one-sample row stripes; 6, 7: checkerboards. The stripes put
/// the largest possible filter differences (|d| = 159) on every block edge, in the vector part
/// and in the remainder columns alike.
pub const CONTENTS: u32 = 8;
const CONTENT_NAMES: [&str; 8] = ["hash bytes", "extremes", "column stripes", "column stripes (other phase)", "row stripes", "row stripes (other phase)", "checkerboard", "checkerboard (other phase)"];

fn content(seed: u64, w: usize, h: usize, s: u8, kind: u32) -> Vec<u8> {
    match kind {
        0 => super::content_bytes(seed ^ ((w as u64) << 24) ^ ((h as u64) << 8) ^ s as u64, w * h),
        1 => super::content_bytes(seed ^ ((w as u64) << 24) ^ ((h as u64) << 8) ^ s as u64, w * h).iter().map(|b| if b & 1 == 0 { 0 } else { 255 }).collect(),
        _ => {
            let phase = (kind & 1) as usize;
            let mut v = vec![0u8; w * h];
            for y in 0..h {
                for x in 0..w {
                    let k = match kind {
                        2 | 3 => x,
                        4 | 5 => y,
                        _ => x + y,
                    };
                    v[x + y * w] = if (k + phase) % 2 == 0 { 255 } else { 0 };
                }
            }
            v
        }
    }
}

fn one(seed: u64, w: usize, h: usize, s: u8, kind: u32) -> Result<(), String> {
    let data = content(seed, w, h, s, kind);
    // handed over at byte offset 0..7 of a larger buffer
    let off = (w + h * 5 + kind as usize) % 8;
    let mut buf = vec![0u8; off];
    buf.extend_from_slice(&data);
    let data = &buf[off..];
    let out = guard(|| deblock(data, w, s)).map_err(|p| format!("deblock({}x{}, strength {}, content: {}) panicked: {}", w, h, s, CONTENT_NAMES[kind as usize], p))?;
    if out.len() != data.len() {
        return Err(format!("deblock({}x{}, strength {}) returned {} samples for {} input samples", w, h, s, out.len(), data.len()));
    }
    Ok(())
}

fn grid_item(seed: u64, wmax: u64, i: u64, acc: &mut Acc) {
    let w = (i % wmax + 1) as usize;
    let h = (i / wmax) as usize;
    for s in 1..=12u8 {
        for kind in 0..CONTENTS {
            if let Err(m) = one(seed, w, h, s, kind) {
                acc.fail(json!({"kind":"params","w":w,"h":h,"strength":s,"content":kind}), m);
                return;
            }
        }
    }
    let nontrivial = h < 2 || w < 10 || w % 8 != 0 || h % 8 != 0;
    acc.count_n(12 * CONTENTS as u64, if nontrivial { 12 * CONTENTS as u64 } else { 0 });
    if h < 2 {
        acc.label_n("fewer than two rows", 12 * CONTENTS as u64);
    }
    if w < 10 {
        acc.label_n("fewer than ten columns", 12 * CONTENTS as u64);
    }
    if w % 8 != 0 {
        acc.label_n("remainder columns", 12 * CONTENTS as u64);
    }
    if h % 8 != 0 {
        acc.label_n("remainder rows", 12 * CONTENTS as u64);
    }
    if w == 9 && h == 1 {
        acc.sample(|| json!({"w": w, "h": h, "strengths": "1..=12", "contents": CONTENT_NAMES}));
    }
}

fn table_suite() -> SuiteReport {
    simple_suite("table_j2", true, |acc| {
        for q in 1..=31usize {
            acc.count(true);
            if QUANT_TO_STRENGTH.get(q).copied() != Some(TABLE_J2[q]) {
                acc.fail(
                    json!({"kind":"params","quant":q}),
                    format!("QUANT_TO_STRENGTH[{}] = {:?}, Table J.2 says {}", q, QUANT_TO_STRENGTH.get(q), TABLE_J2[q]),
                );
                return;
            }
        }
        acc.sample(|| json!({"quant": 31, "strength": TABLE_J2[31]}));
    })
}

/// Sizes far beyond any picture format (one dimension around 2^12 .. 2^17).
fn extreme_item(seed: u64, i: u64, acc: &mut Acc) {
    const BIG: [usize; 16] = [4095, 4096, 4097, 4098, 8192, 8194, 16384, 32768, 65535, 65536, 65537, 65538, 65546, 131072, 131073, 131082];
    let big = BIG[(i % 16) as usize];
    let small = (i / 16 % 12) as usize; // 0..=11 (incl. 0 rows; width 0 is not an image)
    let wide = (i / 192) % 2 == 0;
    let (w, h) = if wide { (big, small) } else { (small.max(1), big) };
    for s in [1u8, 5, 12] {
        for kind in [0u32, 2, 5, 6] {
            if let Err(m) = one(seed, w, h, s, kind) {
                acc.fail(json!({"kind":"params","w":w,"h":h,"strength":s,"content":kind}), m);
                return;
            }
            acc.count(true);
        }
    }
}

/// Empty images (no rows) of absurd widths: the length 0 is a multiple of every width.
fn empty_wide_suite() -> SuiteReport {
    simple_suite("empty_images_of_extreme_width", true, |acc| {
        let widths: Vec<usize> = vec![
            1, 2, 9, 10, 1 << 16, 1 << 31, (1 << 31) + 1, 1 << 32, (1usize << 60) - 1, 1 << 60, (1 << 60) + 1, usize::MAX / 8, usize::MAX / 8 + 1, 1 << 61, (1 << 61) + 5, 1 << 62,
            usize::MAX / 2, usize::MAX / 2 + 1, usize::MAX - 1, usize::MAX,
        ];
        for w in widths {
            for s in [1u8, 7, 12] {
                acc.count(true);
                match guard(|| deblock(&[], w, s)) {
                    Ok(v) if v.is_empty() => {}
                    Ok(v) => {
                        acc.fail(json!({"kind":"params","empty_width":w.to_string(),"strength":s}), format!("deblock of an empty image of width {} returned {} samples", w, v.len()));
                        return;
                    }
                    Err(p) => {
                        acc.fail(json!({"kind":"params","empty_width":w.to_string(),"strength":s}), format!("deblock(empty image, width {}, strength {}) panicked: {}", w, s, p));
                        return;
                    }
                }
            }
        }
        acc.sample(|| json!({"empty_images": "height 0, widths up to usize::MAX"}));
    })
}

/// Every width 1..=4200 (with 10 rows) and every height 1..=4200 (with 10 columns): a boundary
/// inside an otherwise uniform range of one dimension (a buffer sized for "N blocks", a table
/// with one entry too few) shows at a handful of values only.
fn sweep_item(seed: u64, i: u64, acc: &mut Acc) {
    let n = (i / 2 + 1) as usize;
    let (w, h) = if i % 2 == 0 { (n, 10) } else { (10, n) };
    let s = (n % 12 + 1) as u8;
    for kind in [0u32, 2 + (n % 6) as u32] {
        if let Err(m) = one(seed, w, h, s, kind) {
            acc.fail(json!({"kind":"params","w":w,"h":h,"strength":s,"content":kind}), m);
            return;
        }
        acc.count(true);
    }
}

/// Calls in sequence on one thread: the same number of samples under different widths (w x h,
/// h x w, 2w x h/2, ...), the same size again, another size in between. `deblock` is a function
/// of its arguments; nothing of an earlier call may survive into a later one. Each result is
/// compared with the reference filter.
fn sequence_item(seed: u64, i: u64, acc: &mut Acc) {
    use crate::model::deblock::deblock_ref;
    let a = (i % 40 + 1) as usize * 2;
    let b = (i / 40 % 40 + 1) as usize * 2;
    let s = (i % 12 + 1) as u8;
    let shapes: [(usize, usize); 7] = [(a, b), (b, a), (a * 2, (b / 2).max(1)), (a, b), ((a / 2).max(1), b * 2), (a * b, 1), (1, a * b)];
    for (k, (w, h)) in shapes.iter().enumerate() {
        if w * h != a * b && !(k == 2 || k == 4) {
            continue;
        }
        let data = content(seed ^ i, *w, *h, s, (k % 2) as u32);
        let out = match guard(|| deblock(&data, *w, s)) {
            Ok(o) => o,
            Err(p) => {
                acc.fail(json!({"kind":"params","sequence":i}), format!("call {} of a sequence of calls ({}x{} after {:?}), strength {}: panicked: {}", k, w, h, &shapes[..k], s, p));
                return;
            }
        };
        acc.count(true);
        if out != deblock_ref(&data, *w, s) {
            acc.fail(json!({"kind":"params","sequence":i}), format!("call {} of a sequence of calls on one thread ({}x{} after {:?}, strength {}) differs from the reference filter; the same call first in a sequence is right", k, w, h, &shapes[..k], s));
            return;
        }
    }
}

pub fn run(ctx: &Ctx) -> i32 {
    let (wmax, hmax) = ctx.tier.pick((96u64, 64u64), (300u64, 200u64));
    let seed = ctx.seed;
    let mut reports = vec![super::regression_suite(ctx), table_suite()];
    reports.push(empty_wide_suite());
    reports.push(exhaustive_suite(ctx, "extreme_sizes", 384, &move |i, acc| extreme_item(seed, i, acc)));
    reports.push(exhaustive_suite(ctx, "size_strength_grid", wmax * (hmax + 1), &move |i, acc| grid_item(seed, wmax, i, acc)));
    reports.push(exhaustive_suite(ctx, "every_width_and_height_to_4200", 8400, &move |i, acc| sweep_item(seed, i, acc)));
    reports.push(exhaustive_suite(ctx, "call_sequences", 1600, &move |i, acc| sequence_item(seed, i, acc)));
    let mut extra = Map::new();
    extra.insert("grid".into(), json!(format!("widths 1..={} x heights 0..={} x strengths 1..=12", wmax, hmax)));
    finish(
        ctx,
        reports,
        Summary {
            rule: "Enumerated: every width x height x strength in the stated box with eight contents (hash bytes keyed by the parameters and VERIF_SEED, hash-chosen extremes, one-sample 255/0 column stripes, row stripes and checkerboards in both phases, which put the extreme filter differences on every edge) must return a vector of the input length without panicking; every width 1..4200 at 10 rows and every height 1..4200 at 10 columns; sequences of calls on one thread with the same sample count under different widths, each compared with the reference filter; all 31 entries of the quantizer-to-strength table are compared with Table J.2. Non-trivial = fewer than 2 rows, fewer than 10 columns, or a size with remainder rows/columns.",
            assumptions: vec!["data.len() is a multiple of width (documented precondition); width >= 1".into()],
            exhaustive: false,
            extra,
        },
    )
}

pub fn replay(suite: &str, case: &Value) -> Option<Verdict> {
    match suite {
        "call_sequences" => {
            let mut acc = Acc::default();
            sequence_item(case["seed"].as_u64().unwrap_or(1), case["sequence"].as_u64()?, &mut acc);
            Some(match acc.failure {
                Some((_, _, m, _)) => Verdict::fail(m),
                None => Verdict::pass(true, 0),
            })
        }
        "size_strength_grid" | "extreme_sizes" | "every_width_and_height_to_4200" => {
            let w = case["w"].as_u64()? as usize;
            let h = case["h"].as_u64()? as usize;
            let s = case["strength"].as_u64()? as u8;
            let kind = case["content"].as_u64().unwrap_or(0) as u32 % CONTENTS;
            Some(match one(case["seed"].as_u64().unwrap_or(1), w, h, s, kind) {
                Ok(()) => Verdict::pass(true, 0),
                Err(m) => Verdict::fail(m),
            })
        }
        "empty_images_of_extreme_width" => Some(match empty_wide_suite().failure {
            Some(f) => Verdict::fail(f.msg),
            None => Verdict::pass(true, 0),
        }),
        "table_j2" => Some(match table_suite().failure {
            Some(f) => Verdict::fail(f.msg),
            None => Verdict::pass(true, 0),
        }),
        _ => None,
    }
}
