//! C03 - predicted pictures equal motion-compensated reference plus residual.

use super::common::*;
use crate::bits::fnv64;
use crate::dec::*;
use crate::gen::Gen;
use crate::gen_pic::*;
use crate::model::recon::*;
use crate::runner::*;
use crate::syntax::*;
use h263_rs::H263State;
use serde_json::{json, Map, Value};

fn neighbourhood_label(h: &Header) -> &'static str {
    let (mbw, mbh) = h.mb_dims().unwrap_or((0, 0));
    match (mbw, mbh) {
        (1, 1) => "1x1 macroblock",
        (1, _) => "single column",
        (_, 1) => "single row",
        _ => "has interior neighbourhoods",
    }
}

/// Decode `pic` (inter) on `st` and compare with MC(reference) + residual.
pub fn check_inter(st: &mut H263State, pic: &Pic, reference: &Planes) -> Result<(ModelOut, Compared, u64), String> {
    check_inter_cut(st, pic, reference, false)
}

/// As `check_inter`. With `cut_in_vector` (only for pictures that end early) the data does not end
/// on a macroblock boundary but inside the header of one more macroblock: COD, MCBPC, CBPY of an
/// INTER macroblock and the first zero bits of its horizontal vector code, padded with zero bits
/// to the byte boundary - still a prefix of a valid code, so what the decoder meets there is the
/// end of the data, and the picture ends before that macroblock all the same.
pub fn check_inter_cut(st: &mut H263State, pic: &Pic, reference: &Planes, cut_in_vector: bool) -> Result<(ModelOut, Compared, u64), String> {
    let model = reconstruct(pic, Some(reference)).map_err(|e| format!("HARNESS: generator produced an invalid predicted picture: {}", e))?;
    let total = pic.hdr.mb_dims().map(|(a, b)| a * b).unwrap_or(0);
    let bytes = if cut_in_vector && pic.mbs.len() < total {
        let mut w = crate::bits::BitWriter::new();
        encode_header(&pic.hdr, &mut w);
        for mb in &pic.mbs {
            encode_mb(mb, &pic.hdr, &mut w);
        }
        w.put_bit(false); // COD
        w.put_code("1"); // MCBPC: INTER, no chroma block coded
        w.put_code("11"); // CBPY (inter sense): no luma block coded
        w.put(0, 3); // the first three of the ten leading zeros of the longest vector codes
        w.to_bytes()
    } else {
        encode_pic(pic)
    };
    match decode_bytes(st, &bytes) {
        Outcome::Ok => {}
        o => {
            return Err(format!(
                "valid {:?} picture ({} {:?} q{}, {} of {} macroblocks) was not decoded: {}",
                pic.hdr.ptype,
                mode_label(&pic.hdr),
                pic.hdr.size,
                pic.hdr.quant,
                pic.mbs.len(),
                pic.hdr.mb_dims().map(|(a, b)| a * b).unwrap_or(0),
                o.short()
            ))
        }
    }
    let c = compare_last(st, &model.expect)?;
    Ok((model, c, fnv64(&bytes)))
}

fn needs_prediction(pic: &Pic) -> bool {
    let total = pic.hdr.mb_dims().map(|(a, b)| a * b).unwrap_or(0);
    pic.mbs.len() < total || pic.mbs.iter().any(|m| !m.kind.is_intra())
}

pub fn history_case(g: &mut Gen, cfg: &PicCfg) -> Verdict {
    let (mode, version) = gen_mode(g, cfg);
    let size = gen_size(g, mode, cfg);
    let scal = g.bool();
    let mut st = H263State::new(options_scal(mode, scal));
    let mut labels: Labels = Vec::new();
    let mut desc = Vec::new();

    // negative case: a predicted picture with nothing to predict from must be rejected
    if g.chance(1, 14) {
        let like = gen_header(g, mode, version, size, PicType::I);
        // the decoder is fresh - or, in Sorenson mode, has so far decoded nothing but disposable
        // pictures made of intra macroblocks (which are shown but are no reference)
        let mut only_disposable = 0;
        if mode == Mode::Sorenson && g.chance(1, 2) {
            for _ in 0..g.range(1, 2) {
                let mut d = gen_intra_pic_with(g, cfg, mode, version, size);
                d.hdr.ptype = PicType::D;
                match decode_bytes(&mut st, &encode_pic(&d)) {
                    Outcome::Ok => only_disposable += 1,
                    o => return Verdict::fail(format!("disposable picture made of intra macroblocks, first picture of a decoder, not decoded: {}", o.short())),
                }
            }
        }
        let before = last_digest(&st);
        let mut pic = gen_inter_pic(g, cfg, &like, PicType::P, true);
        if pic.hdr.plus == PlusForm::Brief && only_disposable == 0 {
            // a header that does not restate its format needs an earlier picture to take it from
            pic.hdr.plus = PlusForm::Full;
        }
        g.describe(|| json!({"no_reference": true, "disposable_pictures_before": only_disposable, "picture": describe_pic(&pic)}));
        if !needs_prediction(&pic) {
            // made of intra macroblocks only: nothing is predicted, no reference is needed - the
            // picture decodes to its own reconstruction
            let model = match reconstruct(&pic, None) {
                Ok(m) => m,
                Err(e) => panic!("HARNESS: invalid all-intra predicted picture: {}", e),
            };
            let bytes = encode_pic(&pic);
            let r = match decode_bytes(&mut st, &bytes) {
                Outcome::Ok => compare_last(&st, &model.expect).map(|_| ()),
                o => Err(format!("not decoded: {}", o.short())),
            };
            return match r {
                Ok(()) => Verdict::pass_l(true, fnv64(&bytes) ^ 0x99, vec!["P of intra macroblocks only decodes without a reference", mode_label(&pic.hdr)]),
                Err(m) => Verdict::fail(format!("predicted picture made of intra macroblocks only ({} {:?}), no reference in the decoder: {}", mode_label(&pic.hdr), pic.hdr.size, m)),
            };
        }
        let bytes = encode_pic(&pic);
        return match decode_bytes(&mut st, &bytes) {
            Outcome::Err(_) if only_disposable > 0 => {
                if last_digest(&st) != before {
                    return Verdict::fail("rejected P picture changed the most recent picture");
                }
                Verdict::pass_l(true, fnv64(&bytes) ^ 0x77, vec!["P after disposable pictures only (no reference) rejected", mode_label(&pic.hdr)])
            }
            Outcome::Err(_) => {
                if st.get_last_picture().is_some() {
                    return Verdict::fail("rejected P picture left a most-recent picture behind");
                }
                Verdict::pass_l(true, fnv64(&bytes) ^ 0x55, vec!["P without reference rejected", mode_label(&pic.hdr)])
            }
            o => Verdict::fail(format!(
                "P picture ({} {:?}) needing prediction was decoded with no reference picture: {}",
                mode_label(&pic.hdr),
                pic.hdr.size,
                o.short()
            )),
        };
    }

    // a quarter of the histories start on a decoder that has already seen other data
    if g.chance(1, 4) {
        let small = PicCfg { max_dim: 48, max_fixed_mbs: 48, budget: 250, extreme_aspect: false, ..*cfg };
        labels.extend(prehistory(g, &mut st, mode, version, &small));
    }
    let ipic = gen_intra_pic_with(g, cfg, mode, version, size);
    let ibytes = encode_pic(&ipic);
    match decode_bytes(&mut st, &ibytes) {
        Outcome::Ok => {}
        o => return Verdict::fail(format!("valid intra picture not decoded: {}", o.short())),
    }
    let mut reference = match last_picture(&st) {
        Some(lp) => lp.planes,
        None => return Verdict::fail("no picture after a successful decode"),
    };
    if g.want_desc {
        desc.push(describe_pic(&ipic));
    }
    let k = g.range(1, 4) as usize;
    let mut key = fnv64(&ibytes);
    let mut nontrivial = false;
    labels.push(mode_label(&ipic.hdr));
    labels.push(size_label(&ipic.hdr));
    labels.push(neighbourhood_label(&ipic.hdr));
    let mut agg = ModelStats::default();
    let mut tolerated = 0;
    for j in 0..k {
        if g.chance(1, 6) {
            // a rejected picture in between (intra or predicted carrier, any failure kind): the
            // reference stays what it was, the next picture is predicted from it as if nothing came
            use crate::hist::*;
            let kinds: &[BadKind] = if mode == Mode::Sorenson { &BAD_KINDS_SORENSON } else { &BAD_KINDS_STANDARD };
            let kind = *g.pick(kinds);
            let inter = g.bool();
            let tr = g.byte();
            let b = bad_picture(g, cfg, &ipic.hdr, kind, inter, tr);
            let before = last_digest(&st);
            match decode_bytes(&mut st, &b) {
                Outcome::Err(_) => {}
                o => return Verdict::fail(format!("picture that must be rejected ({}) between predicted pictures gave {}", kind.label(), o.short())),
            }
            if last_digest(&st) != before {
                return Verdict::fail(format!("rejected picture ({}) changed the most recent picture", kind.label()));
            }
            labels.push("a rejected picture between predicted pictures");
        }
        let pic = gen_inter_pic(g, cfg, &ipic.hdr, PicType::P, true);
        if g.want_desc {
            desc.push(describe_pic(&pic));
            let d = desc.clone();
            g.describe(|| json!({"history": d}));
        }
        let total_mbs = pic.hdr.mb_dims().map(|(a, b)| a * b).unwrap_or(0);
        let cut = pic.mbs.len() < total_mbs && g.bool();
        if cut {
            labels.push("data ends inside a motion vector code");
        }
        match check_inter_cut(&mut st, &pic, &reference, cut) {
            Err(m) => {
                if m.starts_with("HARNESS") {
                    panic!("{}", m);
                }
                return Verdict::fail(format!("picture {} of the history (P{}): {}", j + 1, if cut { ", data ending inside the vector code of one more macroblock" } else { "" }, m));
            }
            Ok((model, c, k2)) => {
                key = key.rotate_left(7) ^ k2;
                let s = &model.stats;
                if s.nonzero_mv > 0 || s.halfpel > 0 {
                    nontrivial = true;
                }
                agg.nonzero_mv += s.nonzero_mv;
                agg.halfpel += s.halfpel;
                agg.four_v += s.four_v;
                agg.not_coded += s.not_coded;
                agg.intra_in_p += s.intra_in_p;
                agg.truncated_mbs += s.truncated_mbs;
                agg.wrapped_mv += s.wrapped_mv;
                agg.dquant_mbs += s.dquant_mbs;
                agg.cross_left |= s.cross_left;
                agg.cross_right |= s.cross_right;
                agg.cross_top |= s.cross_top;
                agg.cross_bottom |= s.cross_bottom;
                tolerated += c.tolerated;
                reference = c.decoded;
            }
        }
    }
    if agg.four_v > 0 {
        labels.push("has four-vector macroblocks");
    }
    if agg.halfpel > 0 {
        labels.push("has half-sample vectors");
    }
    if agg.not_coded > 0 {
        labels.push("has not-coded macroblocks");
    }
    if agg.intra_in_p > 0 {
        labels.push("has intra macroblocks in P");
    }
    if agg.truncated_mbs > 0 {
        labels.push("truncated picture");
    }
    if agg.wrapped_mv > 0 {
        labels.push("vector wrapped past range");
    }
    if agg.cross_left {
        labels.push("vector crosses left edge");
    }
    if agg.cross_right {
        labels.push("vector crosses right edge");
    }
    if agg.cross_top {
        labels.push("vector crosses top edge");
    }
    if agg.cross_bottom {
        labels.push("vector crosses bottom edge");
    }
    if tolerated > 0 {
        labels.push("used tie tolerance");
    }
    if k >= 2 {
        labels.push("two or more P pictures");
    }
    Verdict::pass_l(nontrivial, key, labels)
}

pub fn cfg_for(tier: Tier) -> PicCfg {
    match tier {
        Tier::Quick => PicCfg {
            max_dim: 128,
            max_fixed_mbs: 99,
            budget: 1800,
            ..PicCfg::quick()
        },
        Tier::Thorough => PicCfg {
            max_dim: 352,
            max_fixed_mbs: 396,
            budget: 2200,
            ..PicCfg::thorough()
        },
    }
}

/// Every inter-picture macroblock type x every coded-block pattern (6 x 64), three stream forms:
/// every MCBPC-P and CBPY codeword (inter sense and intra sense) with matching block presence.
fn types_x_patterns_suite() -> SuiteReport {
    simple_suite("all_macroblock_types_x_patterns", true, |acc| {
        let kinds = [MbKind::Inter, MbKind::InterQ, MbKind::Inter4V, MbKind::Inter4VQ, MbKind::Intra, MbKind::IntraQ];
        for (mode, version) in [(Mode::Sorenson, 0u8), (Mode::Sorenson, 1), (Mode::Standard, 0)] {
            let size = if mode == Mode::Sorenson { Size::Custom8(128, 128) } else { Size::Cif };
            let refpic = super::c12::entropy_reference(mode, version, size, 3);
            let mut st = H263State::new(options_scal(mode, version == 1));
            match decode_bytes(&mut st, &encode_pic(&refpic)) {
                Outcome::Ok => {}
                o => {
                    acc.fail(json!({"kind":"params","suite":"types_x_patterns"}), format!("reference not decoded: {}", o.short()));
                    return;
                }
            }
            let mut reference = last_picture(&st).unwrap().planes;
            for (ki, kind) in kinds.iter().enumerate() {
                let mut hdr = refpic.hdr.clone();
                hdr.ptype = PicType::P;
                hdr.quant = 5 + ki as u8;
                hdr.tr = 100 + ki as u8;
                let (mbw, mbh) = hdr.mb_dims().unwrap();
                let mut mbs = Vec::new();
                for n in 0..mbw * mbh {
                    let pattern = n % 64;
                    let mut mb = Mb::new(*kind);
                    mb.dquant = [1i8, -1, 2, -2][n % 4];
                    for k in 0..4 {
                        mb.mvd[k] = ((((n * 3 + k * 5 + ki) % 13) as i8) - 6, (((n * 5 + k * 3 + ki) % 11) as i8) - 5);
                    }
                    for b in 0..6 {
                        mb.blocks[b].dc = 40 + ((n * 5 + b * 23) % 170) as u8;
                        if mb.blocks[b].dc == 128 {
                            mb.blocks[b].dc = 125;
                        }
                        if (pattern >> b) & 1 == 1 {
                            let first = if kind.is_intra() { 1 } else { 0 };
                            let _ = first;
                            mb.blocks[b].events = vec![Event { run: ((b + n) % 12) as u8, level: if (n + b) % 2 == 0 { 2 } else { -3 }, force_escape: false, wide: false }];
                        }
                    }
                    mbs.push(mb);
                }
                let pic = Pic { hdr, mbs, trailing_zero_bits: 0 };
                acc.count_n(64, 64);
                match check_inter(&mut st, &pic, &reference) {
                    Err(m) => {
                        acc.fail(json!({"kind":"params","suite":"types_x_patterns","kind_index":ki}), format!("macroblock type {:?} x all coded-block patterns ({:?} v{}): {}", kind, mode, version, m));
                        return;
                    }
                    Ok((_, c, _)) => reference = c.decoded,
                }
            }
        }
        acc.sample(|| json!({"macroblock_types": 6, "patterns": 64, "forms": 3}));
    })
}

pub fn run(ctx: &Ctx) -> i32 {
    let cfg = cfg_for(ctx.tier);
    let mut reports = vec![super::regression_suite(ctx)];
    reports.push(types_x_patterns_suite());
    let cases = ctx.tier.pick(100_000u64, 1_500_000u64);
    reports.push(tape_suite(ctx, "inter_histories", cases, 8192, &move |g| history_case(g, &cfg)));
    finish(
        ctx,
        reports,
        Summary {
            rule: "Histories I, P1..Pk (k<=4) drawn from the proptest tape in Sorenson v0/v1 and standard baseline mode: every macroblock type mix (not coded, INTER, INTER+Q, INTER4V, INTER4V+Q, INTRA, INTRA+Q), all 64 differential codes per component, residual blocks of every shape, truncation after any macroblock; plus P pictures with no reference (must be rejected). Oracle: reference model over the decoder's own previous output - median prediction with the picture-edge rules, wrap into [-16,15.5], sixteenth-position chroma rounding, bilinear half-sample interpolation, edge clamping, f64 residual with the C02 tie rule. Non-trivial = history whose P pictures contain a non-zero or half-sample vector; distinct by encoded bytes of the whole history.",
            assumptions: vec![
                "the reference planes are the decoder's own output for the previous picture (which picture is the reference is C04's subject)".into(),
                "baseline / Sorenson semantics: vectors may point outside the picture and are edge-clamped (stated in the property)".into(),
            ],
            exhaustive: false,
            extra: Map::new(),
        },
    )
}

pub fn replay(suite: &str, case: &Value) -> Option<Verdict> {
    match suite {
        "all_macroblock_types_x_patterns" => Some(match types_x_patterns_suite().failure {
            Some(f) => Verdict::fail(f.msg),
            None => Verdict::pass(true, 0),
        }),
        "inter_histories" => {
            let tape = super::tape_of(case)?;
            let tier = if case["tier"].as_str() == Some("thorough") { Tier::Thorough } else { Tier::Quick };
            Some(history_case(&mut Gen::new(&tape), &cfg_for(tier)))
        }
        _ => None,
    }
}
