//! C15 - one decode call consumes exactly one picture of a stream.

use super::common::*;
use crate::bits::fnv64;
use crate::dec::*;
use crate::gen::Gen;
use crate::gen_pic::*;
use crate::io::*;
use crate::runner::*;
use crate::syntax::*;
use h263_rs::parser::H263Reader;
use h263_rs::H263State;
use serde_json::{json, Map, Value};
use std::io::Read;

/// Drain a reader bit by bit; returns the remaining bits. A panic inside the reader ends the drain
/// and appends 64 alternating bits, so that every comparison made on the result fails.
pub fn drain_bits<R: Read>(r: &mut H263Reader<R>) -> Vec<bool> {
    let mut out = Vec::new();
    loop {
        match crate::runner::guard(|| r.read_bits::<u8>(1)) {
            Ok(Ok(b)) => out.push(b == 1),
            Ok(Err(_)) => break,
            Err(_) => {
                for i in 0..64 {
                    out.push(i % 2 == 0);
                }
                break;
            }
        }
        if out.len() > 1 << 22 {
            break;
        }
    }
    out
}

/// Generate a sequence of valid pictures (same mode and size; I then P/D/I).
pub fn gen_sequence(g: &mut Gen, cfg: &PicCfg, max: usize) -> Vec<Pic> {
    let (mode, version) = gen_mode(g, cfg);
    let size = gen_size(g, mode, cfg);
    let n = g.range(1, max as i64) as usize;
    let mut pics = Vec::with_capacity(n);
    let first = gen_intra_pic_with(g, cfg, mode, version, size);
    let mut like = first.hdr.clone();
    pics.push(first);
    for _ in 1..n {
        let k = if mode == Mode::Sorenson { g.weighted(&[2, 5, 3]) } else { g.weighted(&[2, 6]) };
        let p = match k {
            0 => {
                // occasionally change the size at an I picture
                let sz = if g.chance(1, 4) { gen_size(g, mode, cfg) } else { size };
                let i = gen_intra_pic_with(g, cfg, mode, version, sz);
                // later predicted pictures follow this picture (size, modes a header may inherit)
                like = i.hdr.clone();
                i
            }
            // standard mode: a predicted picture may end early (fewer macroblocks than the format
            // has); the decoder then resynchronises on the start code of the picture that follows,
            // or meets the end of the data, and completes the picture from its reference either way
            1 => gen_inter_pic(g, cfg, &like, PicType::P, mode == Mode::Standard),
            _ => gen_inter_pic(g, cfg, &like, PicType::D, false),
        };
        // predicted pictures must keep the size of their reference: stop changing sizes once a
        // different-size I picture was inserted (later P pictures use the new size)
        pics.push(p);
    }
    // make sizes consistent: every P/D takes the size of the closest preceding I picture
    let mut cur = pics[0].hdr.size;
    for p in pics.iter_mut() {
        if p.hdr.ptype == PicType::I {
            cur = p.hdr.size;
        } else if p.hdr.size != cur {
            // regenerate cheaply: all macroblocks not coded at the right size
            p.hdr.size = cur;
            let total = p.hdr.mb_dims().map(|(a, b)| a * b).unwrap_or(0);
            p.mbs.truncate(total);
            while p.mbs.len() < total {
                p.mbs.push(Mb::not_coded());
            }
        }
    }
    pics
}

fn stream_case(g: &mut Gen, cfg: &PicCfg) -> Verdict {
    let pics = gen_sequence(g, cfg, 6);
    let mode = pics[0].hdr.mode;
    let encoded: Vec<Vec<u8>> = pics.iter().map(encode_pic).collect();
    let bitlens: Vec<usize> = pics.iter().map(|p| encode_pic_bits(p).len()).collect();
    let stream: Vec<u8> = encoded.iter().flatten().copied().collect();
    let chunk = g.range(1, 5) as usize;
    g.describe(|| {
        json!({
            "pictures": pics.iter().map(|p| json!({"type": format!("{:?}", p.hdr.ptype), "size": format!("{:?}", p.hdr.size), "mode": mode_label(&p.hdr), "macroblocks": p.mbs.len()})).collect::<Vec<_>>(),
            "padding_bits": bitlens.iter().map(|l| (8 - l % 8) % 8).collect::<Vec<_>>(),
            "stream_hex": crate::bits::hex(&stream[..stream.len().min(1500)]),
        })
    });
    // (a) one reader per picture
    let scal = g.bool();
    let mut sa = H263State::new(options_scal(mode, scal));
    let mut ta = Vec::new();
    for (i, b) in encoded.iter().enumerate() {
        let o = decode_bytes(&mut sa, b);
        if !o.is_ok() {
            return Verdict::fail(format!("picture {} ({:?}) in its own reader was not decoded: {}", i, pics[i].hdr.ptype, o.short()));
        }
        ta.push((o, last_digest(&sa)));
    }
    // (b) concatenated, slice source; (c) concatenated, chunked Read source
    let mut sb = H263State::new(options_scal(mode, scal));
    let mut rb = H263Reader::from_source(&stream[..]);
    let mut sc = H263State::new(options_scal(mode, scal));
    let mut rc = H263Reader::from_source(Chunked::new(&stream, chunk));
    // (d) concatenated, through a source whose read calls are interrupted now and then (a pipe
    // or socket during signal delivery): every reader of a `Read` retries those, invisibly
    let schedule: Vec<u8> = {
        let n = g.range(1, 6) as usize;
        (0..n).map(|_| g.below(3) as u8).collect()
    };
    let mut sd = H263State::new(options_scal(mode, scal));
    let mut rd = H263Reader::from_source(crate::io::Flaky::new(&stream, chunk + 1, schedule.clone(), false));
    for i in 0..encoded.len() {
        let ob = decode_call(&mut sb, &mut rb);
        let db = last_digest(&sb);
        if (ob.clone(), db) != ta[i] {
            return Verdict::fail(format!(
                "call {} on the concatenated stream ({} pictures, {:?} follows {} padding bits): result {} / picture digest {:016x}, but the same picture in its own reader gave {} / {:016x}",
                i,
                encoded.len(),
                pics.get(i + 1).map(|p| p.hdr.ptype),
                (8 - bitlens[i] % 8) % 8,
                ob.short(),
                db,
                ta[i].0.short(),
                ta[i].1
            ));
        }
        let oc = decode_call(&mut sc, &mut rc);
        let dc = last_digest(&sc);
        if (oc.clone(), dc) != ta[i] {
            return Verdict::fail(format!(
                "call {} on the concatenated stream through a {}-byte-chunk Read source: result {} / {:016x}, own-reader result {} / {:016x}",
                i, chunk, oc.short(), dc, ta[i].0.short(), ta[i].1
            ));
        }
        let od = decode_call(&mut sd, &mut rd);
        let dd = last_digest(&sd);
        if (od.clone(), dd) != ta[i] {
            return Verdict::fail(format!(
                "call {} on the concatenated stream through a Read source that reports ErrorKind::Interrupted on some calls (schedule {:?}, up to {} bytes per call): result {} / {:016x}, own-reader result {} / {:016x}",
                i, schedule, chunk + 1, od.short(), dd, ta[i].0.short(), ta[i].1
            ));
        }
    }
    // the concatenated readers must now be at the end of the last picture's macroblock data
    for (name, rest) in [("slice", drain_bits(&mut rb)), ("chunked", drain_bits(&mut rc)), ("interrupted", drain_bits(&mut rd))] {
        if rest.len() > 7 || rest.iter().any(|b| *b) {
            return Verdict::fail(format!(
                "after the last call the {} reader still holds {} bits ({} of them set): not positioned at the end of the picture",
                name,
                rest.len(),
                rest.iter().filter(|b| **b).count()
            ));
        }
    }
    let unaligned = bitlens.iter().any(|l| l % 8 != 0);
    let mut labels: Labels = vec![mode_label(&pics[0].hdr)];
    if pics.iter().any(|p| p.hdr.ptype == PicType::D) {
        labels.push("has disposable picture");
    }
    if pics.windows(2).any(|w| w[0].hdr.size != w[1].hdr.size) {
        labels.push("size change");
    }
    labels.push(match encoded.len() {
        1 => "1 picture",
        2 => "2 pictures",
        _ => "3+ pictures",
    });
    Verdict::pass_l(encoded.len() >= 2 && unaligned, fnv64(&stream), labels)
}

/// More than a mebibyte through ONE reader: many pictures, each made long by a run of MCBPC
/// stuffing of varying length (so picture ends fall on every bit phase), decoded call after call
/// and compared with per-picture readers.
fn long_stream_item(i: u64, acc: &mut Acc) {
    let (mode, version) = [(Mode::Sorenson, 0u8), (Mode::Sorenson, 1), (Mode::Standard, 0)][(i % 3) as usize];
    let size = if mode == Mode::Sorenson { Size::Custom8(32, 16) } else { Size::Sqcif };
    let n_pics = 75usize;
    let mut pics: Vec<Vec<u8>> = Vec::new();
    for k in 0..n_pics {
        let ptype = if k % 4 == 0 { PicType::I } else if mode == Mode::Sorenson && k % 4 == 2 { PicType::D } else { PicType::P };
        let mut hdr = match mode {
            Mode::Sorenson => Header::sorenson(version, ptype, size, 5),
            Mode::Standard => Header::standard(ptype, size, 5),
        };
        hdr.tr = k as u8;
        let (mbw, mbh) = hdr.mb_dims().unwrap();
        let mut w = crate::bits::BitWriter::new();
        encode_header(&hdr, &mut w);
        let mut one = crate::bits::BitWriter::new();
        if ptype != PicType::I {
            one.put_bit(false);
        }
        one.put_code("000000001");
        for _ in 0..(15_500 + 37 * k + i as usize) {
            w.bits.extend_from_slice(&one.bits);
        }
        for n in 0..mbw * mbh {
            let mut mb = if ptype == PicType::I || n % 3 == 0 { Mb::new(MbKind::Intra) } else if n % 3 == 1 { Mb::not_coded() } else { Mb::new(MbKind::Inter) };
            for b in 0..6 {
                mb.blocks[b].dc = 30 + ((n * 6 + b + k) % 190) as u8;
                if mb.blocks[b].dc == 128 {
                    mb.blocks[b].dc = 131;
                }
            }
            if mb.kind != MbKind::NotCoded {
                mb.blocks[(k + n) % 6].events = vec![Event { run: (k % 9) as u8, level: 2 + (n as i16 % 5), force_escape: k % 2 == 0, wide: false }];
                mb.mvd[0] = ((k % 7) as i8 - 3, (n % 5) as i8 - 2);
            }
            encode_mb(&mb, &hdr, &mut w);
        }
        pics.push(w.to_bytes());
    }
    let stream: Vec<u8> = pics.iter().flatten().copied().collect();
    let mut sa = H263State::new(options_scal(mode, i % 2 == 1));
    let mut sb = H263State::new(options_scal(mode, i % 2 == 1));
    let mut rb = H263Reader::from_source(&stream[..]);
    for (k, p) in pics.iter().enumerate() {
        let oa = decode_bytes(&mut sa, p);
        let ob = decode_call(&mut sb, &mut rb);
        acc.count(true);
        if !oa.is_ok() || oa != ob || last_digest(&sa) != last_digest(&sb) {
            acc.fail(
                json!({"kind":"params","long_stream":i}),
                format!(
                    "picture {} of {} in one reader ({} bytes consumed so far of {}): {} / {:016x}, own reader {} / {:016x}",
                    k, n_pics, pics[..k].iter().map(|x| x.len()).sum::<usize>(), stream.len(), ob.short(), last_digest(&sb), oa.short(), last_digest(&sa)
                ),
            );
            return;
        }
    }
    let rest = drain_bits(&mut rb);
    if rest.len() > 7 || rest.iter().any(|b| *b) {
        acc.fail(json!({"kind":"params","long_stream":i}), format!("after {} pictures ({} bytes) the reader still holds {} bits", n_pics, stream.len(), rest.len()));
    }
    if i == 0 {
        acc.sample(|| json!({"pictures": n_pics, "stream_bytes": stream.len(), "mode": format!("{:?}", mode)}));
    }
}

pub fn cfg_for(tier: Tier) -> PicCfg {
    match tier {
        Tier::Quick => PicCfg { max_dim: 96, max_fixed_mbs: 48, budget: 900, extreme_aspect: false, ..PicCfg::quick() },
        Tier::Thorough => PicCfg { max_dim: 200, max_fixed_mbs: 99, budget: 900, ..PicCfg::thorough() },
    }
}

/// Pictures of very many macroblocks (65 536 and more; up to 65 535 samples in one dimension)
/// followed by a small picture in the same reader: the call for the huge picture must stop at
/// its end, so that the next call decodes the small picture as it decodes in its own reader.
const HUGE: [(u16, u16); 5] = [(4096, 4096), (16, 65535), (65535, 16), (4112, 4096), (8192, 2064)];

fn huge_item(i: u64, acc: &mut Acc) {
    let (w, h) = HUGE[i as usize];
    let big = super::c13::cheap_intra(Mode::Sorenson, (i % 2) as u8, Size::Custom16(w, h), 5, i as usize);
    let small = super::c13::cheap_intra(Mode::Sorenson, (i % 2) as u8, Size::Custom8(32, 16), 9, 3 + i as usize);
    let (bb, sb) = (encode_pic(&big), encode_pic(&small));
    let fail = |acc: &mut Acc, m: String| acc.fail(json!({"kind":"params","huge":i}), format!("{}x{} picture ({} macroblocks, {} bytes) then a 32x16 picture: {}", w, h, big.mbs.len(), bb.len(), m));
    let mut own = H263State::new(options_scal(Mode::Sorenson, false));
    let o1 = decode_bytes(&mut own, &bb);
    let d1 = last_digest(&own);
    let o2 = decode_bytes(&mut own, &sb);
    let d2 = last_digest(&own);
    if !o1.is_ok() || !o2.is_ok() {
        fail(acc, format!("not decoded in their own readers: {} / {}", o1.short(), o2.short()));
        return;
    }
    let dims_ok = own.get_last_picture().map(|p| p.as_yuv().0.len()) == Some(32 * 16);
    let stream: Vec<u8> = bb.iter().chain(sb.iter()).copied().collect();
    let mut st = H263State::new(options_scal(Mode::Sorenson, false));
    let mut r = H263Reader::from_source(&stream[..]);
    let c1 = decode_call(&mut st, &mut r);
    let e1 = last_digest(&st);
    let big_len = st.get_last_picture().map(|p| p.as_yuv().0.len());
    let c2 = decode_call(&mut st, &mut r);
    let e2 = last_digest(&st);
    acc.count(true);
    acc.count(true);
    if big_len != Some(w as usize * h as usize) {
        fail(acc, format!("first call gave a picture of {:?} luma samples", big_len));
    } else if (c1.clone(), e1) != (o1.clone(), d1) {
        fail(acc, format!("first call on the stream: {} / {:016x}; own reader: {} / {:016x}", c1.short(), e1, o1.short(), d1));
    } else if (c2.clone(), e2) != (o2.clone(), d2) || !dims_ok {
        fail(acc, format!("second call on the stream: {} / {:016x}; the small picture in its own reader: {} / {:016x}", c2.short(), e2, o2.short(), d2));
    } else {
        let rest = drain_bits(&mut r);
        if rest.len() > 7 || rest.iter().any(|b| *b) {
            fail(acc, format!("after both calls the reader still holds {} bits", rest.len()));
        }
    }
    if i == 0 {
        acc.sample(|| json!({"huge_then_small": format!("{:?}", HUGE), "macroblocks_of_first": big.mbs.len()}));
    }
}

pub fn run(ctx: &Ctx) -> i32 {
    let cfg = cfg_for(ctx.tier);
    let mut reports = vec![super::regression_suite(ctx)];
    let cases = ctx.tier.pick(60_000u64, 1_200_000u64);
    reports.push(tape_suite(ctx, "stream_vs_own_reader", cases, 8192, &move |g| stream_case(g, &cfg)));
    reports.push(exhaustive_suite(ctx, "long_streams", ctx.tier.pick(6u64, 24u64), &long_stream_item));
    reports.push(exhaustive_suite(ctx, "huge_picture_then_next", ctx.tier.pick(3u64, 5u64), &huge_item));
    finish(
        ctx,
        reports,
        Summary {
            rule: "Sequences of 1..6 valid pictures (I/P/disposable, Sorenson v0/v1 and standard, any size incl. size changes at I pictures), each zero-padded to the byte boundary (0..7 bits), decoded (a) one reader per picture, (b) concatenated in one slice reader, (c) concatenated through a Read source that yields 1..5 bytes per call, (d) concatenated through a Read source some of whose calls report ErrorKind::Interrupted. Oracle: result and digest of get_last_picture() after call i are identical in (a), (b), (c), (d); huge_picture_then_next: pictures of 65 536 and more macroblocks (and of 65 535 samples in one dimension) followed by a small picture in the same reader; afterwards the concatenated reader holds at most 7 bits, all zero. Non-trivial = at least two pictures and at least one ends off a byte boundary; distinct by stream bytes.",
            assumptions: vec!["pictures in a stream are byte aligned by fewer than eight zero bits (as the property states)".into()],
            exhaustive: false,
            extra: Map::new(),
        },
    )
}

pub fn replay(suite: &str, case: &Value) -> Option<Verdict> {
    if suite == "long_streams" {
        let mut acc = Acc::default();
        long_stream_item(case["long_stream"].as_u64()?, &mut acc);
        return Some(match acc.failure {
            Some((_, _, m, _)) => Verdict::fail(m),
            None => Verdict::pass(true, 0),
        });
    }
    if suite == "huge_picture_then_next" {
        let mut acc = Acc::default();
        huge_item(case["huge"].as_u64()?, &mut acc);
        return Some(match acc.failure {
            Some((_, _, m, _)) => Verdict::fail(m),
            None => Verdict::pass(true, 0),
        });
    }
    match suite {
        "stream_vs_own_reader" => {
            let tape = super::tape_of(case)?;
            let tier = if case["tier"].as_str() == Some("thorough") { Tier::Thorough } else { Tier::Quick };
            Some(stream_case(&mut Gen::new(&tape), &cfg_for(tier)))
        }
        _ => None,
    }
}
