//! C01 - decoding never crashes or hangs, whatever bytes and history it is given.

use crate::bits::fnv64;
use crate::dec::*;
use crate::gen::Gen;
use crate::gen_pic::*;
use crate::hostile::*;
use crate::runner::*;
use crate::syntax::*;
use h263_rs::parser::H263Reader;
use h263_rs::H263State;
use serde_json::{json, Map, Value};
use std::io::Read;

/// Declared luma area above which a picture is "too large for memory" and skipped.
pub const MAX_AREA: usize = 1 << 25;

#[derive(Clone, Debug)]
pub enum Step {
    /// one picture's data in its own reader
    Decode(Vec<u8>),
    /// several pieces concatenated in one reader, `calls` decode calls on it
    Stream(Vec<u8>, usize),
    Cleanup,
}

/// Ask the parser (the code under test) what size the next picture in `reader` declares, without
/// consuming anything. Ok(None): no parsable header / no size. A panic here is itself a violation.
fn declared_area<R: Read>(state: &H263State, reader: &mut H263Reader<R>) -> Result<Option<usize>, String> {
    let r = guard(|| reader.with_lookahead(|r| state.parse_picture(r, state.get_last_picture().map(|p| p.as_header()))));
    match r {
        Err(p) => Err(p),
        Ok(Ok(Some(pic))) => {
            let dims = match pic.format {
                Some(f) => f.into_width_and_height(),
                None => state.get_last_picture().and_then(|p| p.format().into_width_and_height()),
            };
            Ok(dims.map(|(w, h)| w as usize * h as usize))
        }
        Ok(_) => Ok(None),
    }
}

pub struct CallLog {
    pub outcomes: Vec<String>,
    pub excluded_size: u32,
    pub accepted: u32,
    pub rejected_past_header: u32,
    pub rejected: u32,
}

impl CallLog {
    pub fn new() -> CallLog {
        CallLog { outcomes: vec![], excluded_size: 0, accepted: 0, rejected_past_header: 0, rejected: 0 }
    }
}

impl Default for CallLog {
    fn default() -> Self {
        Self::new()
    }
}

/// Byte serialisation of a history (the libFuzzer input format and the "bytes" replay format):
/// byte 0 = decoder options (low two bits); then per step a tag byte (tag % 4: 0 or 3 = picture in
/// its own reader, 1 = stream with 1 + (tag >> 2) % 4 calls, 2 = clean-up) followed, for data
/// steps, by a little-endian u16 length and that many bytes (clipped to what is left).
pub fn history_from_bytes(data: &[u8]) -> (u8, Vec<Step>) {
    if data.is_empty() {
        return (0, vec![]);
    }
    let opts = data[0] & 3;
    let mut i = 1;
    let mut steps = Vec::new();
    while i < data.len() && steps.len() < 8 {
        let tag = data[i];
        i += 1;
        match tag % 4 {
            2 => steps.push(Step::Cleanup),
            k => {
                if i + 2 > data.len() {
                    break;
                }
                let len = u16::from_le_bytes([data[i], data[i + 1]]) as usize;
                i += 2;
                let end = (i + len).min(data.len());
                let b = data[i..end].to_vec();
                i = end;
                if k == 1 {
                    steps.push(Step::Stream(b, 1 + ((tag >> 2) % 4) as usize));
                } else {
                    steps.push(Step::Decode(b));
                }
            }
        }
    }
    (opts, steps)
}

pub fn history_to_bytes(opts: u8, steps: &[Step]) -> Vec<u8> {
    let mut out = vec![opts & 3];
    for s in steps.iter().take(8) {
        match s {
            Step::Cleanup => out.push(2),
            Step::Decode(b) => {
                out.push(0);
                let n = b.len().min(65535);
                out.extend_from_slice(&(n as u16).to_le_bytes());
                out.extend_from_slice(&b[..n]);
            }
            Step::Stream(b, calls) => {
                out.push(1 | ((((*calls).clamp(1, 4) - 1) as u8) << 2));
                let n = b.len().min(65535);
                out.extend_from_slice(&(n as u16).to_le_bytes());
                out.extend_from_slice(&b[..n]);
            }
        }
    }
    out
}

/// Strict replay of a serialised history (used for fuzzer artifacts and "bytes" replay files).
pub fn replay_bytes(data: &[u8]) -> Verdict {
    let (opts, steps) = history_from_bytes(data);
    let mut log = CallLog::new();
    match run_history(opts, &steps, &mut log) {
        Err(m) => Verdict::fail(m),
        Ok(()) => Verdict::pass(log.accepted > 0 || log.rejected_past_header > 0, fnv64(data)),
    }
}

/// Execute a history on a fresh decoder. Returns Err(description) on a panic.
pub fn run_history(opts: u8, steps: &[Step], log: &mut CallLog) -> Result<(), String> {
    let mut st = H263State::new(options_from_bits(opts));
    for (i, step) in steps.iter().enumerate() {
        match step {
            Step::Cleanup => {
                guard(|| st.cleanup_buffers()).map_err(|p| format!("step {}: cleanup_buffers panicked: {}", i, p))?;
                log.outcomes.push("cleanup".into());
            }
            Step::Decode(bytes) => {
                let mut r = H263Reader::from_source(&bytes[..]);
                one_call(&mut st, &mut r, i, 0, log)?;
            }
            Step::Stream(bytes, calls) => {
                let mut r = H263Reader::from_source(&bytes[..]);
                for c in 0..*calls {
                    let go_on = one_call(&mut st, &mut r, i, c, log)?;
                    if !go_on {
                        break;
                    }
                }
            }
        }
    }
    Ok(())
}

fn one_call<R: Read>(st: &mut H263State, r: &mut H263Reader<R>, step: usize, call: usize, log: &mut CallLog) -> Result<bool, String> {
    let header_ok;
    match declared_area(st, r) {
        Err(p) => return Err(format!("step {} call {}: parsing the picture header panicked: {}", step, call, p)),
        Ok(Some(a)) if a > MAX_AREA => {
            log.excluded_size += 1;
            log.outcomes.push("skipped: declared size would not fit in memory".into());
            return Ok(false);
        }
        Ok(a) => header_ok = a.is_some(),
    }
    match decode_call(st, r) {
        Outcome::Panic(p) => Err(format!("step {} call {}: decode_next_picture panicked: {}", step, call, p)),
        Outcome::Ok => {
            log.accepted += 1;
            log.outcomes.push("Ok".into());
            Ok(true)
        }
        Outcome::Err(e) => {
            log.rejected += 1;
            if header_ok {
                log.rejected_past_header += 1;
            }
            log.outcomes.push(format!("Err({})", e.chars().take(60).collect::<String>()));
            // after an error in a stream the position is unchanged: further calls repeat it
            Ok(false)
        }
    }
}

pub fn gen_history(g: &mut Gen, cfg: &PicCfg) -> (u8, Vec<Step>, Vec<&'static str>) {
    let opts = g.below(4) as u8;
    let mode = if opts & 1 == 1 { Mode::Sorenson } else { Mode::Standard };
    let version = if mode == Mode::Sorenson { g.below(2) as u8 } else { 0 };
    let mut aim = Aim { mode, version, like: None };
    let n = g.range(1, 6) as usize;
    let mut steps = Vec::new();
    let mut labels = Vec::new();
    for i in 0..n {
        // histories usually start with something decodable so that later steps meet real state
        if i == 0 && g.chance(2, 3) {
            let size = gen_size(g, mode, cfg);
            let p = gen_intra_pic_with(g, cfg, mode, version, size);
            aim.like = Some(p.hdr.clone());
            labels.push("valid picture");
            steps.push(Step::Decode(encode_pic(&p)));
            continue;
        }
        match g.weighted(&[10, 3, 1]) {
            0 => {
                let (b, l, h) = any_data(g, cfg, &aim);
                if let Some(h) = h {
                    if h.ptype != PicType::D {
                        aim.like = Some(h);
                    }
                }
                labels.push(l);
                steps.push(Step::Decode(b));
            }
            1 => {
                let k = g.range(2, 4) as usize;
                let mut all = Vec::new();
                for _ in 0..k {
                    let (b, l, h) = any_data(g, cfg, &aim);
                    if let Some(h) = h {
                        if h.ptype != PicType::D {
                            aim.like = Some(h);
                        }
                    }
                    labels.push(l);
                    all.extend_from_slice(&b);
                }
                labels.push("several pictures in one reader");
                steps.push(Step::Stream(all, k + 1));
            }
            _ => {
                labels.push("clean-up call");
                steps.push(Step::Cleanup);
            }
        }
    }
    (opts, steps, labels)
}

fn describe(opts: u8, steps: &[Step]) -> Value {
    json!({
        "decoder_options": {"sorenson": opts & 1 == 1, "scalability": opts & 2 == 2},
        "steps": steps.iter().map(|s| match s {
            Step::Decode(b) => json!({"decode": crate::bits::hex(&b[..b.len().min(2000)]), "len": b.len()}),
            Step::Stream(b, c) => json!({"stream": crate::bits::hex(&b[..b.len().min(2000)]), "len": b.len(), "calls": c}),
            Step::Cleanup => json!("cleanup"),
        }).collect::<Vec<_>>(),
    })
}

fn history_case(g: &mut Gen, cfg: &PicCfg) -> Verdict {
    let (opts, steps, mut labels) = gen_history(g, cfg);
    g.describe(|| describe(opts, &steps));
    let mut log = CallLog::new();
    match run_history(opts, &steps, &mut log) {
        Err(m) => Verdict::fail(m),
        Ok(()) => {
            let mut key = opts as u64;
            for s in &steps {
                key = key.rotate_left(11)
                    ^ match s {
                        Step::Decode(b) => fnv64(b),
                        Step::Stream(b, _) => fnv64(b) ^ 0x5757,
                        Step::Cleanup => 0xC1EA,
                    };
            }
            labels.push(["options: standard", "options: sorenson", "options: standard+scalability", "options: sorenson+scalability"][opts as usize]);
            if log.accepted > 0 {
                labels.push("some call accepted");
            }
            if log.rejected_past_header > 0 {
                labels.push("some call rejected past the header");
            }
            if log.rejected > log.rejected_past_header {
                labels.push("some call rejected in the header");
            }
            if log.excluded_size > 0 {
                labels.push("excluded_size (declared size too large for memory)");
            }
            labels.sort();
            labels.dedup();
            let nontrivial = log.accepted > 0 || log.rejected_past_header > 0;
            Verdict::pass_l(nontrivial, key, labels)
        }
    }
}

/// The same histories delivered through sources that misbehave the way pipes and sockets do:
/// short reads, `Interrupted`, and transient failures (`WouldBlock` / `TimedOut` / `Other`) on
/// scheduled `read` calls. A call that fails on such a failure is repeated (up to four times).
/// Whatever the data and however it arrives, every call must return.
fn failing_source_case(g: &mut Gen, cfg: &PicCfg) -> Verdict {
    let (opts, steps, mut labels) = gen_history(g, cfg);
    let chunk = g.range(1, 16) as usize;
    let n = g.range(2, 24) as usize;
    let schedule: Vec<u8> = (0..n).map(|_| *g.pick(&[0u8, 0, 0, 1, 1, 2, 3])).collect();
    g.describe(|| json!({"history": describe(opts, &steps), "bytes_per_read": chunk, "schedule (0,1 deliver; 2 Interrupted; 3 transient failure)": schedule}));
    let mut st = H263State::new(options_from_bits(opts));
    let mut log = CallLog::new();
    let mut failed_calls = 0usize;
    for (i, step) in steps.iter().enumerate() {
        let (bytes, calls) = match step {
            Step::Cleanup => {
                if let Err(p) = guard(|| st.cleanup_buffers()) {
                    return Verdict::fail(format!("step {}: cleanup_buffers panicked: {}", i, p));
                }
                continue;
            }
            Step::Decode(b) => (b, 1usize),
            Step::Stream(b, c) => (b, *c),
        };
        let src = crate::io::Flaky::new(&bytes[..], chunk, schedule.clone(), true);
        let transients = src.transients.clone();
        let mut r = H263Reader::from_source(src);
        let mut c = 0;
        let mut repeats = 0;
        while c < calls {
            // the memory exclusion needs the declared size, i.e. a header look-ahead the source
            // did not disturb: look ahead until one attempt meets no source failure (what was
            // read stays buffered, so every attempt gets further); give the step up otherwise
            let mut undisturbed = false;
            for _ in 0..20_000 {
                let seen = transients.get();
                if let Err(p) = declared_area(&st, &mut r) {
                    return Verdict::fail(format!("step {} call {}: parsing the picture header panicked: {} (source: up to {} bytes per read, schedule {:?})", i, c, p, chunk, schedule));
                }
                if transients.get() == seen {
                    undisturbed = true;
                    break;
                }
            }
            if !undisturbed {
                break;
            }
            let seen = transients.get();
            match one_call(&mut st, &mut r, i, c, &mut log) {
                Err(m) => return Verdict::fail(format!("{} (source: up to {} bytes per read, schedule {:?})", m, chunk, schedule)),
                Ok(true) => c += 1,
                Ok(false) => {
                    if transients.get() > seen && repeats < 4 {
                        // the source failed during this call: the caller tries again
                        repeats += 1;
                        failed_calls += 1;
                    } else {
                        break;
                    }
                }
            }
        }
    }
    let mut key = opts as u64 ^ ((chunk as u64) << 8) ^ fnv64(&schedule);
    for s in &steps {
        key = key.rotate_left(11)
            ^ match s {
                Step::Decode(b) => fnv64(b),
                Step::Stream(b, _) => fnv64(b) ^ 0x5757,
                Step::Cleanup => 0xC1EA,
            };
    }
    if failed_calls > 0 {
        labels.push("a call failed on a source failure and was repeated");
    }
    if log.accepted > 0 {
        labels.push("some call accepted");
    }
    labels.sort();
    labels.dedup();
    Verdict::pass_l(log.accepted > 0 || log.rejected_past_header > 0, key, labels)
}

pub fn cfg_for(tier: Tier) -> PicCfg {
    match tier {
        Tier::Quick => PicCfg { max_dim: 64, max_fixed_mbs: 48, budget: 500, ..PicCfg::quick() },
        Tier::Thorough => PicCfg { max_dim: 200, max_fixed_mbs: 396, budget: 900, ..PicCfg::thorough() },
    }
}

pub fn run(ctx: &Ctx) -> i32 {
    let cfg = cfg_for(ctx.tier);
    let mut reports = vec![super::regression_suite(ctx)];
    let cases = ctx.tier.pick(400_000u64, 5_000_000u64);
    start_watchdog(ctx, "hostile_histories", 20, 60);
    reports.push(tape_suite(ctx, "hostile_histories", cases, 6144, &move |g| history_case(g, &cfg)));
    stop_watchdog();
    let fcases = ctx.tier.pick(40_000u64, 600_000u64);
    let fcfg = PicCfg { max_dim: 48, max_fixed_mbs: 48, budget: 300, extreme_aspect: false, ..cfg };
    start_watchdog(ctx, "histories_over_failing_sources", 20, 60);
    reports.push(tape_suite(ctx, "histories_over_failing_sources", fcases, 4096, &move |g| failing_source_case(g, &fcfg)));
    stop_watchdog();
    let mut extra = Map::new();
    extra.insert("max_area_samples".into(), json!(MAX_AREA));
    if ctx.tier == Tier::Thorough && reports.iter().all(|r| r.failure.is_none()) {
        // coverage-guided engine: libFuzzer on the same history format, seeded with generator
        // output, plus one campaign from an empty corpus
        let seeds = seed_corpus(ctx, &cfg, 600);
        let rep = fuzz_campaign(
            ctx,
            &FuzzPlan { target: "decode_history", procs: ctx.threads.min(16), runs: 600_000, max_len: 8192, timeout_s: 60, seeds },
            &|bytes| replay_bytes(bytes),
        );
        reports.push(rep);
    }
    finish(
        ctx,
        reports,
        Summary {
            rule: "Histories of 1..6 steps on one H263State under each of the four decoder-option combinations; a step is one picture's data in its own reader, several pieces concatenated in one reader decoded call after call, or a clean-up call. Data is a measured mix of valid pictures, semantic corruptions (surplus macroblocks, rewritten / zero / huge declared sizes, reference of another size, PQUANT 0, extreme escape levels, runs past coefficient 63, INTRADC 0/128/255, reserved codes, arbitrary PTYPE/PLUSPTYPE options, GOB start codes mid-picture, stuffing runs, type rewrites), bit-level corruptions (flips, inserted / deleted bits, truncation, splices, trailing garbage) and raw bytes. Oracle: every call returns Ok or Err - a panic (index, slice, overflow, division by zero, unwrap, assert; overflow checks and debug assertions are compiled in) or a confirmed hang is a violation. Non-trivial = some call got past the picture header (accepted, or rejected in the macroblock / block / prediction layer); distinct by the bytes of the history. Pictures whose declared area exceeds max_area_samples are skipped and counted. histories_over_failing_sources: the same histories delivered through Read sources with short reads, ErrorKind::Interrupted and transient failures (WouldBlock / TimedOut / Other) on scheduled calls, each failed call repeated up to four times.",
            assumptions: vec![
                "the declared size used for the memory exclusion is obtained by a look-ahead call of the decoder's own header parser (a panic there is reported as a violation)".into(),
                "hangs: a case running > 20 s is re-executed alone in a fresh process with a 60 s limit; only a reproduced time-out is a violation".into(),
            ],
            exhaustive: false,
            extra,
        },
    )
}

/// Seed corpus for the fuzzer: histories from the structured generator, serialised.
fn seed_corpus(ctx: &Ctx, cfg: &PicCfg, n: usize) -> Vec<Vec<u8>> {
    let tapes = generate_tapes(ctx.seed ^ 0xF0CC, n, 6144);
    tapes
        .iter()
        .map(|t| {
            let (opts, steps, _) = gen_history(&mut Gen::new(t), cfg);
            history_to_bytes(opts, &steps)
        })
        .collect()
}

pub fn replay(suite: &str, case: &Value) -> Option<Verdict> {
    if case["kind"] == "bytes" {
        return Some(replay_bytes(&crate::bits::unhex(case["hex"].as_str()?)));
    }
    match suite {
        "hostile_histories" => {
            let tape = super::tape_of(case)?;
            let tier = if case["tier"].as_str() == Some("thorough") { Tier::Thorough } else { Tier::Quick };
            Some(history_case(&mut Gen::new(&tape), &cfg_for(tier)))
        }
        "histories_over_failing_sources" => {
            let tape = super::tape_of(case)?;
            let tier = if case["tier"].as_str() == Some("thorough") { Tier::Thorough } else { Tier::Quick };
            let cfg = cfg_for(tier);
            Some(failing_source_case(&mut Gen::new(&tape), &PicCfg { max_dim: 48, max_fixed_mbs: 48, budget: 300, extreme_aspect: false, ..cfg }))
        }
        _ => None,
    }
}
