//! AST of pictures / macroblocks / blocks and the serialiser (the harness's encoder).
//!
//! The AST is deliberately permissive: it can express hostile pictures (too many macroblocks,
//! illegal levels, reserved codes) for the robustness property; *validity* is the generators'
//! responsibility. Layouts follow H.263 (01/2005) clauses 5.1-5.4 and the Sorenson Spark header.

use crate::bits::BitWriter;
use crate::tables;
use std::collections::HashMap;
use std::sync::OnceLock;

#[derive(Clone, Copy, Debug, PartialEq, Eq, Hash)]
pub enum Mode {
    Sorenson,
    Standard,
}

#[derive(Clone, Copy, Debug, PartialEq, Eq, Hash)]
pub enum PicType {
    I,
    P,
    /// Sorenson disposable inter picture (type code 2)
    D,
    /// Sorenson reserved type code 3 (hostile inputs only)
    SorensonReserved,
}

impl PicType {
    pub fn is_inter(self) -> bool {
        matches!(self, PicType::P | PicType::D)
    }
}

#[derive(Clone, Copy, Debug, PartialEq, Eq, Hash)]
pub enum Size {
    /// Sorenson size code 0: 8-bit width and height
    Custom8(u8, u8),
    /// Sorenson size code 1: 16-bit width and height
    Custom16(u16, u16),
    /// 352x288 (Sorenson code 2, standard source format 3)
    Cif,
    /// 176x144 (Sorenson code 3, standard source format 2)
    Qcif,
    /// 128x96 (Sorenson code 4, standard source format 1)
    Sqcif,
    /// Sorenson code 5
    S320x240,
    /// Sorenson code 6
    S160x120,
    /// Sorenson code 7 (reserved; hostile inputs only)
    SorensonReserved,
    /// standard source format 4
    Cif4,
    /// standard source format 5
    Cif16,
    /// standard custom picture format (PLUSPTYPE + CPFMT): width and height multiples of 4,
    /// width 4..=2048, height 4..=1152
    StdCustom(u16, u16),
}

impl Size {
    pub fn dims(self) -> Option<(usize, usize)> {
        Some(match self {
            Size::Custom8(w, h) => (w as usize, h as usize),
            Size::Custom16(w, h) => (w as usize, h as usize),
            Size::Cif => (352, 288),
            Size::Qcif => (176, 144),
            Size::Sqcif => (128, 96),
            Size::S320x240 => (320, 240),
            Size::S160x120 => (160, 120),
            Size::Cif4 => (704, 576),
            Size::Cif16 => (1408, 1152),
            Size::StdCustom(w, h) => (w as usize, h as usize),
            Size::SorensonReserved => return None,
        })
    }
}

#[derive(Clone, Debug, PartialEq, Eq, Hash)]
pub struct Header {
    pub mode: Mode,
    /// Sorenson 5-bit version field (0 and 1 are real; others only for header checks)
    pub version: u8,
    pub tr: u8,
    pub size: Size,
    pub ptype: PicType,
    /// Sorenson deblocking flag
    pub deblock: bool,
    pub quant: u8,
    pub pei: Vec<u8>,
    /// standard PTYPE bits 3..5
    pub split_screen: bool,
    pub doc_camera: bool,
    pub freeze_release: bool,
    /// standard CPM/PSBI
    pub cpm: Option<u8>,
    /// standard mode: how the header is written
    pub plus: PlusForm,
    /// standard mode, intra pictures only: the Unrestricted Motion Vector mode bit is set (PTYPE
    /// bit 10, or OPPTYPE with the UUI field following). An intra picture has no vectors, so the
    /// decoded picture is unaffected; nothing of it may carry over into pictures whose own header
    /// states the mode as off.
    pub umv: bool,
    /// standard mode, PLUSPTYPE forms: Reference Picture Selection mode in force for this picture.
    /// A `Full` header switches it on in OPPTYPE (and carries RPSMF); a `Brief` header inherits
    /// it from the previous picture; while in force every header carries TRPI (written 0: predict
    /// from the previous picture, as without the mode) and BCI (written "01": no back-channel
    /// message). The decoded pictures are those of the same stream without the mode.
    pub rps: bool,
}

/// Form of a standard-mode header (all optional modes off in every form).
#[derive(Clone, Copy, Debug, PartialEq, Eq, Hash)]
pub enum PlusForm {
    /// baseline 13-bit PTYPE (fixed formats only)
    Baseline,
    /// PLUSPTYPE with UFEP = 001: OPPTYPE restates the format (custom formats carry CPFMT)
    Full,
    /// PLUSPTYPE with UFEP = 000: format and modes not restated (predicted pictures only)
    Brief,
}

impl Header {
    pub fn sorenson(version: u8, ptype: PicType, size: Size, quant: u8) -> Header {
        Header {
            mode: Mode::Sorenson,
            version,
            tr: 0,
            size,
            ptype,
            deblock: false,
            quant,
            pei: vec![],
            split_screen: false,
            doc_camera: false,
            freeze_release: false,
            cpm: None,
            plus: PlusForm::Baseline,
            umv: false,
            rps: false,
        }
    }
    pub fn standard(ptype: PicType, size: Size, quant: u8) -> Header {
        Header {
            mode: Mode::Standard,
            version: 0,
            ..Header::sorenson(0, ptype, size, quant)
        }
    }
    /// Is the UMV mode bit written into this header? (Only ever for standard intra pictures.)
    pub fn umv_coded(&self) -> bool {
        self.umv && self.mode == Mode::Standard && self.ptype == PicType::I && self.plus != PlusForm::Brief
    }
    pub fn rps_in_force(&self) -> bool {
        self.rps && self.mode == Mode::Standard && self.plus != PlusForm::Baseline && !(matches!(self.size, Size::SorensonReserved))
    }
    pub fn is_v1(&self) -> bool {
        self.mode == Mode::Sorenson && self.version == 1
    }
    pub fn dims(&self) -> Option<(usize, usize)> {
        self.size.dims()
    }
    pub fn mb_dims(&self) -> Option<(usize, usize)> {
        self.dims().map(|(w, h)| ((w + 15) / 16, (h + 15) / 16))
    }
}

#[derive(Clone, Copy, Debug, PartialEq, Eq, Hash)]
pub struct Event {
    pub run: u8,
    pub level: i16,
    /// force the escape form even when a short code exists
    pub force_escape: bool,
    /// Sorenson version 1 only: use the 11-bit escape (else 7-bit) when escaping
    pub wide: bool,
}

#[derive(Clone, Debug, Default, PartialEq, Eq, Hash)]
pub struct Blk {
    /// INTRADC code (intra macroblocks only)
    pub dc: u8,
    /// run/level events; the block is "coded" (CBP bit set) iff this is non-empty
    pub events: Vec<Event>,
}

#[derive(Clone, Copy, Debug, PartialEq, Eq, Hash)]
pub enum MbKind {
    NotCoded,
    Inter,
    InterQ,
    Inter4V,
    Inter4VQ,
    Intra,
    IntraQ,
}

impl MbKind {
    pub fn is_intra(self) -> bool {
        matches!(self, MbKind::Intra | MbKind::IntraQ)
    }
    pub fn is_inter_coded(self) -> bool {
        matches!(self, MbKind::Inter | MbKind::InterQ | MbKind::Inter4V | MbKind::Inter4VQ)
    }
    pub fn has_q(self) -> bool {
        matches!(self, MbKind::InterQ | MbKind::Inter4VQ | MbKind::IntraQ)
    }
    pub fn has_4v(self) -> bool {
        matches!(self, MbKind::Inter4V | MbKind::Inter4VQ)
    }
    /// type number used in the frozen MCBPC tables
    fn table_type(self) -> u8 {
        match self {
            MbKind::Inter => 0,
            MbKind::InterQ => 1,
            MbKind::Inter4V => 2,
            MbKind::Intra => 3,
            MbKind::IntraQ => 4,
            MbKind::Inter4VQ => 5,
            MbKind::NotCoded => 255,
        }
    }
}

#[derive(Clone, Debug, PartialEq, Eq, Hash)]
pub struct Mb {
    pub kind: MbKind,
    /// DQUANT in {-2,-1,1,2} (used when kind.has_q())
    pub dquant: i8,
    /// motion vector differentials in half-sample units (-32..=31); [0] for one-vector types
    pub mvd: [(i8, i8); 4],
    pub blocks: [Blk; 6],
    /// number of MCBPC stuffing codes emitted before this macroblock
    pub stuffing: u8,
}

impl Mb {
    pub fn not_coded() -> Mb {
        Mb {
            kind: MbKind::NotCoded,
            dquant: 0,
            mvd: [(0, 0); 4],
            blocks: Default::default(),
            stuffing: 0,
        }
    }
    pub fn new(kind: MbKind) -> Mb {
        Mb {
            kind,
            ..Mb::not_coded()
        }
    }
}

#[derive(Clone, Debug, PartialEq, Eq, Hash)]
pub struct Pic {
    pub hdr: Header,
    pub mbs: Vec<Mb>,
    /// zero bits appended after the last macroblock (0..=7 in valid streams)
    pub trailing_zero_bits: u8,
}

// ------------------------------------------------------------------------------------------------
// Encoder-direction table lookups

struct Enc {
    mcbpc_i: HashMap<(u8, bool, bool), &'static str>,
    mcbpc_p: HashMap<(u8, bool, bool), &'static str>,
    cbpy: HashMap<[bool; 4], &'static str>,
    mvd: HashMap<i8, &'static str>,
    tcoef: HashMap<(bool, u8, u8), &'static str>,
}

fn enc() -> &'static Enc {
    static E: OnceLock<Enc> = OnceLock::new();
    E.get_or_init(|| Enc {
        mcbpc_i: tables::MCBPC_I.iter().map(|(c, t, b, r)| ((*t, *b, *r), *c)).collect(),
        mcbpc_p: tables::MCBPC_P.iter().map(|(c, t, b, r)| ((*t, *b, *r), *c)).collect(),
        cbpy: tables::CBPY.iter().map(|(c, p)| (*p, *c)).collect(),
        mvd: tables::MVD.iter().map(|(c, v)| (*v, *c)).collect(),
        tcoef: tables::TCOEF.iter().map(|(c, l, r, v)| ((*l, *r, *v), *c)).collect(),
    })
}

/// Does a short TCOEF code exist for (last, run, |level|)?
pub fn has_short_code(last: bool, run: u8, abs_level: u16) -> bool {
    abs_level <= 255 && enc().tcoef.contains_key(&(last, run, abs_level as u8))
}

/// All (last, run, level) triples that have a short code (102 entries).
pub fn short_codes() -> &'static [(&'static str, bool, u8, u8)] {
    tables::TCOEF
}

// ------------------------------------------------------------------------------------------------
// Serialiser

pub fn put_start_code(w: &mut BitWriter) {
    w.put(1, 17);
}

pub fn encode_header(h: &Header, w: &mut BitWriter) {
    put_start_code(w);
    match h.mode {
        Mode::Sorenson => {
            w.put(h.version as u64, 5);
            w.put(h.tr as u64, 8);
            match h.size {
                Size::Custom8(a, b) => {
                    w.put(0, 3);
                    w.put(a as u64, 8);
                    w.put(b as u64, 8);
                }
                Size::Custom16(a, b) => {
                    w.put(1, 3);
                    w.put(a as u64, 16);
                    w.put(b as u64, 16);
                }
                Size::Cif => w.put(2, 3),
                Size::Qcif => w.put(3, 3),
                Size::Sqcif => w.put(4, 3),
                Size::S320x240 => w.put(5, 3),
                Size::S160x120 => w.put(6, 3),
                Size::SorensonReserved | Size::Cif4 | Size::Cif16 | Size::StdCustom(..) => w.put(7, 3),
            }
            w.put(
                match h.ptype {
                    PicType::I => 0,
                    PicType::P => 1,
                    PicType::D => 2,
                    PicType::SorensonReserved => 3,
                },
                2,
            );
            w.put_bit(h.deblock);
            w.put(h.quant as u64, 5);
        }
        Mode::Standard => {
            w.put(0, 5); // rest of PSC (GN = 0)
            w.put(h.tr as u64, 8);
            // PTYPE, 13 bits
            w.put_bit(true); // bit 1: always 1
            w.put_bit(false); // bit 2: always 0
            w.put_bit(h.split_screen);
            w.put_bit(h.doc_camera);
            w.put_bit(h.freeze_release);
            let fmt = match h.size {
                Size::Sqcif => 1,
                Size::Qcif => 2,
                Size::Cif => 3,
                Size::Cif4 => 4,
                Size::Cif16 => 5,
                _ => 6, // baseline: reserved (hostile only); OPPTYPE: custom
            };
            let form = if matches!(h.size, Size::StdCustom(..)) && h.plus == PlusForm::Baseline { PlusForm::Full } else { h.plus };
            match form {
                PlusForm::Baseline => {
                    w.put(fmt, 3);
                    // bit 9: picture coding type, "0" INTRA, "1" INTER
                    w.put_bit(h.ptype != PicType::I);
                    w.put_bit(h.umv_coded()); // bit 10: UMV
                    w.put(0, 3); // bits 11-13: SAC, AP, PB off
                    w.put(h.quant as u64, 5);
                    match h.cpm {
                        None => w.put_bit(false),
                        Some(psbi) => {
                            w.put_bit(true);
                            w.put(psbi as u64, 2);
                        }
                    }
                }
                PlusForm::Full | PlusForm::Brief => {
                    w.put(7, 3); // extended PTYPE
                    if form == PlusForm::Full {
                        w.put(1, 3); // UFEP = 001
                        w.put(fmt, 3); // OPPTYPE source format
                        w.put(0, 1); // custom PCF off
                        w.put_bit(h.umv_coded()); // UMV
                        w.put(0, 5); // SAC, AP, AIC, DF, SS off
                        w.put_bit(h.rps); // RPS
                        w.put(0, 3); // ISD, AIV, MQ off
                        w.put(0b1000, 4);
                    } else {
                        w.put(0, 3); // UFEP = 000
                    }
                    // MPPTYPE: picture type, RPR, RRU, RTYPE, "001"
                    w.put(if h.ptype == PicType::I { 0 } else { 1 }, 3);
                    w.put(0, 3);
                    w.put(0b001, 3);
                    match h.cpm {
                        None => w.put_bit(false),
                        Some(psbi) => {
                            w.put_bit(true);
                            w.put(psbi as u64, 2);
                        }
                    }
                    if form == PlusForm::Full {
                        if let Size::StdCustom(cw, ch) = h.size {
                            // pixel aspect ratio: every defined code in turn (1 square, 2..5 the
                            // standard ratios, 15 extended with an explicit EPAR pair)
                            let par = [2u64, 1, 3, 15, 4, 5, 2, 15][(h.tr as usize / 4) % 8];
                            w.put(par, 4);
                            w.put((cw as u64 / 4).saturating_sub(1), 9);
                            w.put_bit(true);
                            w.put(ch as u64 / 4, 9);
                            if par == 15 {
                                w.put(h.tr as u64 | 1, 8); // EPAR width (non-zero)
                                w.put(h.quant as u64 | 2, 8); // EPAR height (non-zero)
                            }
                        }
                        if h.umv_coded() {
                            // UUI: "1" limited range, "01" unlimited
                            if h.tr & 1 == 1 {
                                w.put_bit(true);
                            } else {
                                w.put(0b01, 2);
                            }
                        }
                        if h.rps {
                            w.put(4 + (h.tr as u64 >> 1 & 3), 3); // RPSMF 100..111
                        }
                    }
                    if h.rps {
                        w.put_bit(false); // TRPI: no TRP, predict from the previous picture
                        w.put(0b01, 2); // BCI: no back-channel message
                    }
                    w.put(h.quant as u64, 5);
                }
            }
        }
    }
    for b in &h.pei {
        w.put_bit(true);
        w.put(*b as u64, 8);
    }
    w.put_bit(false);
}

pub fn encode_event(ev: &Event, last: bool, hdr: &Header, w: &mut BitWriter) {
    let abs = ev.level.unsigned_abs();
    let short = if !ev.force_escape && ev.level != 0 && abs <= 255 {
        enc().tcoef.get(&(last, ev.run, abs as u8)).copied()
    } else {
        None
    };
    match short {
        Some(code) => {
            w.put_code(code);
            w.put_bit(ev.level < 0);
        }
        None => {
            w.put_code(tables::TCOEF_ESCAPE);
            let width = if hdr.is_v1() {
                w.put_bit(ev.wide);
                if ev.wide {
                    11
                } else {
                    7
                }
            } else {
                8
            };
            w.put_bit(last);
            w.put(ev.run as u64 & 63, 6);
            w.put((ev.level as i64 as u64) & ((1u64 << width) - 1), width);
        }
    }
}

pub fn encode_block(b: &Blk, intra: bool, hdr: &Header, w: &mut BitWriter) {
    if intra {
        w.put(b.dc as u64, 8);
    }
    let n = b.events.len();
    for (i, ev) in b.events.iter().enumerate() {
        encode_event(ev, i + 1 == n, hdr, w);
    }
}

/// COD / MCBPC / CBPY / DQUANT / MVD part of a macroblock (everything before the block layer),
/// including any MCBPC stuffing codes that precede it.
pub fn encode_mb_header(mb: &Mb, hdr: &Header, w: &mut BitWriter) {
    let inter_pic = hdr.ptype != PicType::I;
    for _ in 0..mb.stuffing {
        if inter_pic {
            w.put_bit(false); // COD = 0
            w.put_code(tables::MCBPC_P_STUFFING);
        } else {
            w.put_code(tables::MCBPC_I_STUFFING);
        }
    }
    if mb.kind == MbKind::NotCoded {
        // only expressible in inter pictures; in an I picture there is no COD bit, so a
        // "not coded" macroblock cannot be written
        if inter_pic {
            w.put_bit(true);
        }
        return;
    }
    if inter_pic {
        w.put_bit(false);
    }
    let cb = !mb.blocks[4].events.is_empty();
    let cr = !mb.blocks[5].events.is_empty();
    let key = (mb.kind.table_type(), cb, cr);
    let code = if inter_pic {
        enc().mcbpc_p.get(&key).copied()
    } else {
        enc().mcbpc_i.get(&key).copied()
    };
    match code {
        Some(c) => w.put_code(c),
        None => {
            // inter type in an I picture: not expressible; emit the P-table code anyway (hostile)
            if let Some(c) = enc().mcbpc_p.get(&key) {
                w.put_code(c);
            }
        }
    }
    let coded: [bool; 4] = [
        !mb.blocks[0].events.is_empty(),
        !mb.blocks[1].events.is_empty(),
        !mb.blocks[2].events.is_empty(),
        !mb.blocks[3].events.is_empty(),
    ];
    let pattern = if mb.kind.is_intra() {
        coded
    } else {
        [!coded[0], !coded[1], !coded[2], !coded[3]]
    };
    w.put_code(enc().cbpy[&pattern]);
    if mb.kind.has_q() {
        w.put(
            match mb.dquant {
                -1 => 0,
                -2 => 1,
                1 => 2,
                _ => 3,
            },
            2,
        );
    }
    if mb.kind.is_inter_coded() {
        let n = if mb.kind.has_4v() { 4 } else { 1 };
        for k in 0..n {
            w.put_code(enc().mvd[&mb.mvd[k].0.clamp(-32, 31)]);
            w.put_code(enc().mvd[&mb.mvd[k].1.clamp(-32, 31)]);
        }
    }
}

pub fn encode_mb(mb: &Mb, hdr: &Header, w: &mut BitWriter) {
    encode_mb_header(mb, hdr, w);
    if mb.kind == MbKind::NotCoded {
        return;
    }
    for b in &mb.blocks {
        encode_block(b, mb.kind.is_intra(), hdr, w);
    }
}

/// Serialise a picture; returns the bit string (not byte-aligned unless padding makes it so).
pub fn encode_pic_bits(p: &Pic) -> BitWriter {
    let mut w = BitWriter::new();
    encode_header(&p.hdr, &mut w);
    for mb in &p.mbs {
        encode_mb(mb, &p.hdr, &mut w);
    }
    for _ in 0..p.trailing_zero_bits {
        w.put_bit(false);
    }
    w
}

/// Serialise to bytes (the final partial byte is zero-padded, which is at most 7 more zero bits).
pub fn encode_pic(p: &Pic) -> Vec<u8> {
    encode_pic_bits(p).to_bytes()
}
