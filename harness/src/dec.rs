//! Thin wrappers around the code under test (the only place that touches `H263State`).

use crate::model::recon::Planes;
use crate::runner::guard;
use crate::syntax::Mode;
use h263_rs::parser::H263Reader;
use h263_rs::{DecoderOption, H263State};
use std::io::Read;

pub fn options(mode: Mode, scalability: bool) -> DecoderOption {
    let mut o = DecoderOption::empty();
    if mode == Mode::Sorenson {
        o |= DecoderOption::SORENSON_SPARK_BITSTREAM;
    }
    if scalability {
        o |= DecoderOption::USE_SCALABILITY_MODE;
    }
    o
}

/// The scalability option must not matter for Sorenson streams; checks that build their own
/// decoder pick it pseudo-arbitrarily (from the tape or the enumeration index) in Sorenson mode.
/// In standard mode it stays off: with it on, headers carry layer numbers that the picture
/// serialiser does not write (C06 covers those headers).
pub fn options_scal(mode: Mode, want_scal: bool) -> DecoderOption {
    options(mode, mode == Mode::Sorenson && want_scal)
}

pub fn options_from_bits(bits: u8) -> DecoderOption {
    DecoderOption::from_bits_truncate(bits & 3)
}

/// Outcome of one decode call: Ok(()) / Err(error text) / Panic(text)
#[derive(Clone, Debug, PartialEq, Eq)]
pub enum Outcome {
    Ok,
    Err(String),
    Panic(String),
}

impl Outcome {
    pub fn is_ok(&self) -> bool {
        matches!(self, Outcome::Ok)
    }
    pub fn is_eof_err(&self) -> bool {
        matches!(self, Outcome::Err(e) if e.contains("UnexpectedEof"))
    }
    pub fn short(&self) -> String {
        match self {
            Outcome::Ok => "Ok".into(),
            Outcome::Err(e) => format!("Err({})", e),
            Outcome::Panic(p) => format!("PANIC({})", p),
        }
    }
}

pub fn decode_call<R: Read>(state: &mut H263State, reader: &mut H263Reader<R>) -> Outcome {
    match guard(|| state.decode_next_picture(reader)) {
        Ok(Ok(())) => Outcome::Ok,
        Ok(Err(e)) => Outcome::Err(format!("{:?}", e)),
        Err(p) => Outcome::Panic(p),
    }
}

/// Decode one picture supplied in its own reader.
pub fn decode_bytes(state: &mut H263State, bytes: &[u8]) -> Outcome {
    let mut reader = H263Reader::from_source(bytes);
    decode_call(state, &mut reader)
}

#[derive(Clone, Debug, PartialEq, Eq)]
pub struct LastPicture {
    pub planes: Planes,
    pub chroma_samples_per_row: usize,
    pub y_len: usize,
    pub c_len: (usize, usize),
    pub tr: u16,
    pub ptype: String,
    pub quant: u8,
    pub header_debug: String,
    /// raw PictureOption bits of the header
    pub options_bits: u32,
    pub format_dims: Option<(u16, u16)>,
}

/// Name of a picture type, by matching on the enum (independent of its Debug rendering).
pub fn picture_type_name(t: &h263_rs::PictureTypeCode) -> String {
    use h263_rs::PictureTypeCode as T;
    match t {
        T::IFrame => "IFrame".into(),
        T::PFrame => "PFrame".into(),
        T::PbFrame => "PbFrame".into(),
        T::ImprovedPbFrame => "ImprovedPbFrame".into(),
        T::BFrame => "BFrame".into(),
        T::EiFrame => "EiFrame".into(),
        T::EpFrame => "EpFrame".into(),
        T::Reserved(r) => format!("Reserved({})", r),
        T::DisposablePFrame => "DisposablePFrame".into(),
    }
}

pub fn last_picture(state: &H263State) -> Option<LastPicture> {
    let p = state.get_last_picture()?;
    let (y, cb, cr) = p.as_yuv();
    let dims = p.format().into_width_and_height();
    let (w, h) = dims.map(|(a, b)| (a as usize, b as usize)).unwrap_or((0, 0));
    let hdr = p.as_header();
    Some(LastPicture {
        planes: Planes {
            w,
            h,
            y: y.to_vec(),
            cb: cb.to_vec(),
            cr: cr.to_vec(),
        },
        chroma_samples_per_row: p.chroma_samples_per_row(),
        y_len: y.len(),
        c_len: (cb.len(), cr.len()),
        tr: hdr.temporal_reference,
        ptype: picture_type_name(&hdr.picture_type),
        options_bits: hdr.options.bits(),
        quant: hdr.quantizer,
        header_debug: format!("{:?}", hdr),
        format_dims: dims,
    })
}

/// Digest of everything observable about the most recent picture (planes, header, format).
pub fn last_digest(state: &H263State) -> u64 {
    match state.get_last_picture() {
        None => 0,
        Some(p) => {
            let (y, cb, cr) = p.as_yuv();
            let mut k = crate::bits::fnv64(y);
            k = crate::bits::fnv64_extend(k, &[0xFF]);
            k = crate::bits::fnv64_extend(k, cb);
            k = crate::bits::fnv64_extend(k, &[0xFE]);
            k = crate::bits::fnv64_extend(k, cr);
            k = crate::bits::fnv64_extend(k, format!("{:?}|{:?}|{}", p.as_header(), p.format(), p.chroma_samples_per_row()).as_bytes());
            k | 1
        }
    }
}
