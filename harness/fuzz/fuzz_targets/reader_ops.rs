#![no_main]
//! Coverage-guided target for C14: the input bytes are used as a choice tape for the operation
//! sequence generator; the bit-vector model is the oracle inside the target.
use libfuzzer_sys::fuzz_target;
use vcheck::props::c14;

fuzz_target!(|data: &[u8]| {
    if let Err(m) = c14::fuzz_entry(data) {
        eprintln!("C14 violation: {}", m);
        std::process::abort();
    }
});
