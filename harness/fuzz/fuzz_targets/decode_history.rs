#![no_main]
//! Coverage-guided target for C01: the input is a serialised history (see
//! vcheck::props::c01::history_from_bytes); any panic inside a decode call, and any harness-detected
//! violation, aborts the process so that libFuzzer saves the input.
use libfuzzer_sys::fuzz_target;
use vcheck::props::c01;

fuzz_target!(|data: &[u8]| {
    let (opts, steps) = c01::history_from_bytes(data);
    let mut log = c01::CallLog::new();
    if let Err(m) = c01::run_history(opts, &steps, &mut log) {
        eprintln!("C01 violation: {}", m);
        std::process::abort();
    }
});
