#!/usr/bin/env python3
"""Dev-time only: walk the decoder-direction VLC tables of the pinned tree and emit frozen
encoder-direction tables for the harness (harness/src/tables.rs). The output is committed; the
harness never reads /repo sources at run time. Every entry of the source tables is pinned by the
repository's own unit tests (tcoef_table, macroblock_* tests), and `vcheck selftest` round-trips
every symbol through the public decode functions."""
import re,sys
def parse_table(src, name):
    m = re.search(r'const %s: \[Entry<.*?>; (\d+)\] = \[(.*?)\n\];' % name, src, re.S)
    n = int(m.group(1)); body = m.group(2)
    # strip comments
    body = re.sub(r'//[^\n]*', '', body)
    entries=[]; i=0
    while i < len(body):
        if body.startswith('Fork(', i):
            j = body.index(')', i)
            a,b = [int(x) for x in body[i+5:j].split(',')]
            entries.append(('F',a,b)); i=j+1
        elif body.startswith('End(', i):
            depth=0; j=i+3
            while True:
                if body[j]=='(': depth+=1
                elif body[j]==')':
                    depth-=1
                    if depth==0: break
                j+=1
            entries.append(('E', re.sub(r'\s+',' ',body[i+4:j]).strip())); i=j+1
        else: i+=1
    assert len(entries)==n,(name,len(entries),n)
    return entries
def walk(entries):
    out=[]
    def rec(idx, code):
        e=entries[idx]
        if e[0]=='E': out.append((code,e[1]))
        else:
            rec(e[1], code+'0'); rec(e[2], code+'1')
    rec(0,'')
    return out
mb=open('/repo/h263/src/parser/macroblock.rs').read()
bl=open('/repo/h263/src/parser/block.rs').read()
o=[]
o.append('//! Frozen encoder-direction VLC tables (generated once by tools/extract_tables.py from the\n//! pinned tree, whose decoder tables are pinned entry-by-entry by the repository unit tests).\n//! (code string, symbol). DO NOT regenerate at run time.\n')
def mbtype(s): return s
# MCBPC I
o.append('/// (code, mb_type, cbpc_b, cbpc_r); mb_type: 3=Intra 4=IntraQ')
rows=[]
TY={'Inter':0,'InterQ':1,'Inter4V':2,'Intra':3,'IntraQ':4,'Inter4Vq':5}
for name,const in (('MCBPC_I','MCBPC_I_TABLE'),('MCBPC_P','MCBPC_P_TABLE')):
    rows=[]; stuffing=None
    for code,sym in walk(parse_table(mb,const)):
        m=re.match(r'BlockPatternEntry::Valid\( ?MacroblockType::(\w+), (\w+), (\w+),? ?\)',sym)
        if m: rows.append((code,TY[m.group(1)],m.group(2),m.group(3)))
        elif 'Stuffing' in sym: stuffing=code
    o.append('pub const %s: &[(&str, u8, bool, bool)] = &[' % name)
    for r in rows: o.append('    ("%s", %d, %s, %s),' % r)
    o.append('];')
    o.append('pub const %s_STUFFING: &str = "%s";' % (name, stuffing))
# CBPY (intra sense)
o.append('/// (code, [b0,b1,b2,b3]) in the INTRA sense; INTER uses the complement pattern.')
o.append('pub const CBPY: &[(&str, [bool; 4])] = &[')
for code,sym in walk(parse_table(mb,'CBPY_TABLE_INTRA')):
    m=re.match(r'Some\(\[(.*)\]\)',sym)
    if m: o.append('    ("%s", [%s]),' % (code,m.group(1)))
o.append('];')
# MVD
o.append('/// (code, value in half-sample units)')
o.append('pub const MVD: &[(&str, i8)] = &[')
for code,sym in walk(parse_table(mb,'MVD_TABLE')):
    m=re.match(r'Some\((-?[\d.]+)\)',sym)
    if m: o.append('    ("%s", %d),' % (code,int(float(m.group(1))*2)))
o.append('];')
# TCOEF
o.append('/// (code without sign bit, last, run, level)')
o.append('pub const TCOEF: &[(&str, bool, u8, u8)] = &[')
esc=None
for code,sym in walk(parse_table(bl,'TCOEF_TABLE')):
    m=re.match(r'Some\(Run \{ last: (\w+), run: (\d+), level: (\d+),? \}\)',sym)
    if m: o.append('    ("%s", %s, %s, %s),' % (code,m.group(1),m.group(2),m.group(3)))
    elif 'EscapeToLong' in sym: esc=code
o.append('];')
o.append('pub const TCOEF_ESCAPE: &str = "%s";' % esc)
open('/verif/harness/src/tables.rs','w').write('\n'.join(o)+'\n')
