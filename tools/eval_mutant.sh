#!/bin/bash
# Dev-time: confirm a sub-agent's seeded change and run the quick checks against it.
# usage: eval_mutant.sh <worktree> <A|B> <seeded-id> [checks...]
# 1. in the scratch worktree: demo passes clean; with patch: repo tests pass, demo fails
# 2. apply to /repo, run the quick checks, undo
wt="$1"; ab="$2"; id="$3"; shift 3
checks="$@"
if [ -z "$checks" ]; then
  # only checks that compile the patched crate can be affected
  if grep -q "^+++ b/yuv/" "$wt/OUT/$ab/patch.diff"; then checks="C07 C08 C13"
  elif grep -q "^+++ b/deblock/" "$wt/OUT/$ab/patch.diff"; then checks="C09 C13 C16"
  else checks="C01 C02 C03 C04 C05 C06 C10 C11 C12 C13 C14 C15 C17"; fi
fi
export VERIF_SHRINK_SECS=3
src="$wt/OUT/$ab"; out="/verif/seeded/$id"; mkdir -p "$out"
cp "$src/patch.diff" "$src/demo.rs" "$out/"; cp "$src/meta.json" "$out/agent_meta.json"
place=$(head -1 "$src/demo.rs" | sed -n 's/.*place at \([^ ;]*\).*/\1/p')
crate=$(echo "$place" | cut -d/ -f1); tname=$(basename "$place" .rs)
pkg=$(grep -m1 '^name' "$wt/$crate/Cargo.toml" | sed 's/.*"\(.*\)".*/\1/')
cd "$wt" || exit 2
git checkout -q -- . ; mkdir -p "$(dirname "$place")"; cp "$src/demo.rs" "$place"
feat=""; grep -q "verif_hooks" "$src/demo.rs" && feat="--features verif-hooks"
devdeps=0
if grep -q "h263_rs_yuv\|h263_rs_deblock" "$src/demo.rs" && [ "$crate" = "h263" ]; then
  devdeps=1
  printf '\n[dev-dependencies]\nh263-rs-yuv = { path = "../yuv" }\nh263-rs-deblock = { path = "../deblock" }\n' >> h263/Cargo.toml
fi
a=$(cargo test --offline -p "$pkg" $feat --test "$tname" 2>&1 | grep -E "^test result" | head -1)
git apply "$src/patch.diff" || { echo "PATCH DOES NOT APPLY"; exit 3; }
b=$(cargo test --workspace --no-fail-fast --offline --lib 2>&1 | grep -E "^test result" | tr '\n' ' ')
c=$(cargo test --offline -p "$pkg" $feat --test "$tname" 2>&1 | grep -E "^test result" | head -1)
git checkout -q -- . ; rm -f "$place"; rmdir "$(dirname "$place")" 2>/dev/null
echo "[$id] demo clean: $a"; echo "[$id] suite patched: $b"; echo "[$id] demo patched: $c"
# 2. against /repo
cd /repo && git diff --quiet || { echo "repo dirty"; exit 2; }
git apply "$src/patch.diff" || { echo "PATCH DOES NOT APPLY TO /repo"; exit 3; }
caught=""; missed=""
cd /verif
for ck in $checks; do
  o=$(./check $ck quick 2>&1); rc=$?
  if [ $rc -eq 1 ]; then caught="$caught $ck"; echo "$o" | grep -m1 -E "^--- " | cut -c1-400 > "$out/detected_by_$ck.txt"; elif [ $rc -eq 0 ]; then missed="$missed $ck"; else echo "[$id] $ck exit $rc"; fi
done
git -C /repo checkout -- .
echo "[$id] CAUGHT BY:$caught"
python3 - "$out" "$id" "$a" "$b" "$c" "$caught" "$checks" <<'PY'
import json,sys
out,id_,a,b,c,caught,checks=sys.argv[1:8]
am=json.load(open(out+'/agent_meta.json'))
m={"id":id_,"breaks_property":am.get("property"),"summary":am.get("summary"),"needs_to_manifest":am.get("needs"),"files":am.get("files"),
 "confirmed":{"demo_on_clean_tree":a,"existing_suite_with_patch":b,"demo_with_patch":c},
 "ran":["scratch worktree: cargo test (demo) clean; git apply patch.diff; cargo test --workspace --lib; cargo test (demo)","/repo: git apply patch.diff; ./check <Cxx> quick for: "+checks+"; git checkout -- ."],
 "quick_checks_reporting_violation":caught.split()}
json.dump(m,open(out+'/meta.json','w'),indent=1)
PY
