#!/bin/bash
# Dev-time helper: apply a sed mutation to /repo, run checks, restore. usage: mutate.sh <file> <sed-expr> <check...>
f="$1"; e="$2"; shift 2
cd /repo || exit 2
git diff --quiet || { echo "repo dirty"; exit 2; }
sed -i "$e" "$f"
if git diff --quiet; then echo "MUTATION DID NOT APPLY"; exit 3; fi
git diff | grep '^[+-]' | grep -v '^+++\|^---'
cd /verif
for c in "$@"; do ./check $c quick 2>&1 | grep -E "VIOLATION|violations=" | cut -c1-300; done
git -C /repo checkout -- .
