#!/bin/bash
# Dev-time: re-run selected quick checks against an already confirmed seeded change (after a check
# was strengthened) and record the outcome in its meta.json. usage: recheck_mutant.sh <id> <checks...>
id="$1"; shift
out="/verif/seeded/$id"
cd /repo && git diff --quiet || { echo "repo dirty"; exit 2; }
git apply "$out/patch.diff" || exit 3
export VERIF_SHRINK_SECS=3
caught=""
cd /verif
for ck in "$@"; do
  o=$(./check $ck quick 2>&1); rc=$?
  if [ $rc -eq 1 ]; then caught="$caught $ck"; echo "$o" | grep -m1 -E "^--- " | cut -c1-400 > "$out/detected_by_$ck.txt"; fi
  echo "[$id] $ck rc=$rc"
done
git -C /repo checkout -- .
python3 - "$out" "$caught" "$*" <<'PY'
import json,sys
out,caught,ran=sys.argv[1:4]
m=json.load(open(out+'/meta.json'))
m.setdefault('after_strengthening',{})
m['after_strengthening']={'checks_rerun':ran.split(),'reporting_violation':caught.split()}
for c in caught.split():
    if c not in m['quick_checks_reporting_violation']: m['quick_checks_reporting_violation'].append(c)
json.dump(m,open(out+'/meta.json','w'),indent=1)
PY
echo "[$id] NOW CAUGHT BY:$caught"
