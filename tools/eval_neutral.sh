#!/bin/bash
# Dev-time: run the quick checks against a property-preserving change; any VIOLATION is a suspected
# false alarm to be investigated. usage: eval_neutral.sh <worktree> <N1|N2|N3> <id>
wt="$1"; n="$2"; id="$3"
src="$wt/OUT/$n"; out="/verif/seeded/neutral/$id"; mkdir -p "$out"
cp "$src/patch.diff" "$out/"; cp "$src/meta.json" "$out/agent_meta.json"
if grep -q "^+++ b/yuv/" "$src/patch.diff"; then checks="C07 C08 C13"
elif grep -q "^+++ b/deblock/" "$src/patch.diff"; then checks="C09 C13 C16"
else checks="C01 C02 C03 C04 C05 C06 C10 C11 C12 C13 C14 C15 C17"; fi
cd /repo && git diff --quiet || { echo "repo dirty"; exit 2; }
git apply "$src/patch.diff" || { echo "[$id] PATCH DOES NOT APPLY"; exit 3; }
t=$(cargo test --workspace --no-fail-fast --offline --lib 2>&1 | grep -E "^test result" | tr '\n' ' ')
export VERIF_SHRINK_SECS=5
alarms=""; incon=""
cd /verif
for ck in $checks; do
  o=$(./check $ck quick 2>&1); rc=$?
  if [ $rc -eq 1 ]; then alarms="$alarms $ck"; echo "$o" | grep -E "^--- " | head -3 | cut -c1-600 > "$out/alarm_$ck.txt"; fi
  if [ $rc -ge 2 ]; then incon="$incon $ck"; echo "$o" | tail -5 | cut -c1-400 > "$out/inconclusive_$ck.txt"; fi
done
git -C /repo checkout -- .
echo "[$id] suite: $t"
echo "[$id] ALARMS:$alarms   INCONCLUSIVE:$incon"
python3 - "$out" "$id" "$alarms" "$incon" "$checks" "$t" <<'PY'
import json,sys
out,id_,alarms,incon,checks,t=sys.argv[1:7]
am=json.load(open(out+'/agent_meta.json'))
json.dump({"id":id_,"summary":am.get("summary"),"observable_differences":am.get("observable_differences"),"existing_suite_with_patch":t,"quick_checks_run":checks.split(),"alarms":alarms.split(),"inconclusive":incon.split()},open(out+'/meta.json','w'),indent=1)
PY
